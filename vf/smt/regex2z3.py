"""Engine B: a compiled Python regular expression (read from the live module) -> z3 regex with
continuation semantics, and language-inclusion queries against a specification language.

`lang_of_match(pattern)` is the set of strings s with `pattern.match(s) is not None`.
tr(ops, rest) = language of the *remaining input* from the current position, where `rest`
is the language allowed after the last op (Full for match(): trailing input is free).
This makes `$` (end, or just before one final newline), `\\Z`, `^`, and look-ahead exact.
Unsupported op-codes raise Unsupported: a harness error, never a pass.
"""
import re
import subprocess
import tempfile
import time

import z3

try:
    import re._parser as sre_parse
    import re._constants as C
except ImportError:  # pragma: no cover  (python < 3.11)
    import sre_parse
    import sre_constants as C

S = z3.StringSort()
RS = z3.ReSort(S)


class Unsupported(Exception):
    pass


def Full():
    return z3.Full(RS)


def Empty():
    return z3.Re("")


def AnyChar():
    return z3.AllChar(RS)


def lit(c):
    return z3.Re(z3.StringVal(c))


def rng(a, b):
    return z3.Range(z3.StringVal(a), z3.StringVal(b))


def union(xs):
    xs = list(xs)
    if not xs:
        return z3.Empty(RS)
    if len(xs) == 1:
        return xs[0]
    return z3.Union(*xs)


# \d, \w, \s (and their negations) in str patterns are Unicode aware: their exact member ranges are computed from the
# live `re` module, code point by code point, up to z3's largest character (U+2FFFF); nothing is assumed about them.
_MAXCHAR = 0x2FFFF
_CATEGORY_PATTERN = {"CATEGORY_DIGIT": r"\d", "CATEGORY_NOT_DIGIT": r"\D", "CATEGORY_WORD": r"\w", "CATEGORY_NOT_WORD": r"\W",
                     "CATEGORY_SPACE": r"\s", "CATEGORY_NOT_SPACE": r"\S"}
_CATEGORY_CACHE = {}


def category(av):
    name = str(av)
    if name not in _CATEGORY_PATTERN:
        raise Unsupported("category %s" % (av,))
    if name not in _CATEGORY_CACHE:
        m = re.compile(_CATEGORY_PATTERN[name]).match
        ranges, start = [], None
        for cp in range(_MAXCHAR + 2):
            inside = cp <= _MAXCHAR and m(chr(cp)) is not None
            if inside and start is None:
                start = cp
            elif not inside and start is not None:
                ranges.append((start, cp - 1))
                start = None
        _CATEGORY_CACHE[name] = ranges
    return union([rng(chr(a), chr(b)) if a != b else lit(chr(a)) for a, b in _CATEGORY_CACHE[name]])


def charclass(items):
    neg = False
    parts = []
    for op, av in items:
        if op is C.NEGATE:
            neg = True
        elif op is C.LITERAL:
            parts.append(lit(chr(av)))
        elif op is C.RANGE:
            parts.append(rng(chr(av[0]), chr(av[1])))
        elif op is C.CATEGORY:
            parts.append(category(av))
        else:
            raise Unsupported("class item %s" % (op,))
    u = union(parts)
    if neg:
        return z3.Intersect(AnyChar(), z3.Complement(u))
    return u


def repeat(av, flags):
    lo, hi, sub = av
    inner = tr(list(sub), Empty(), flags)
    if hi is C.MAXREPEAT:
        if lo == 0:
            return z3.Star(inner)
        if lo == 1:
            return z3.Plus(inner)
        return z3.Concat(z3.Loop(inner, lo, lo), z3.Star(inner))
    return z3.Loop(inner, lo, hi)


def cat(a, b):
    return z3.Concat(a, b)


def tr(ops, rest, flags=0):
    if not ops:
        return rest
    (op, av) = ops[0]
    k = tr(ops[1:], rest, flags)
    if op is C.AT:
        if av is C.AT_BEGINNING or av is C.AT_BEGINNING_STRING:
            if flags & re.MULTILINE:
                raise Unsupported("^ with MULTILINE")
            return k                      # match() anchors at 0 and ^ is only supported in first position
        if av is C.AT_END:
            if flags & re.MULTILINE:
                raise Unsupported("$ with MULTILINE")
            return z3.Intersect(k, z3.Union(Empty(), lit("\n")))
        if av is C.AT_END_STRING:
            return z3.Intersect(k, Empty())
        raise Unsupported("AT %s" % (av,))
    if op is C.ASSERT_NOT:
        direction, sub = av
        if direction != 1:
            raise Unsupported("look-behind")
        return z3.Intersect(k, z3.Complement(tr(list(sub), Full(), flags)))
    if op is C.ASSERT:
        direction, sub = av
        if direction != 1:
            raise Unsupported("look-behind")
        return z3.Intersect(k, tr(list(sub), Full(), flags))
    if op is C.IN:
        return cat(charclass(av), k)
    if op is C.LITERAL:
        if flags & re.IGNORECASE:
            raise Unsupported("IGNORECASE")
        return cat(lit(chr(av)), k)
    if op is C.NOT_LITERAL:
        return cat(z3.Intersect(AnyChar(), z3.Complement(lit(chr(av)))), k)
    if op is C.ANY:
        if flags & re.DOTALL:
            return cat(AnyChar(), k)
        return cat(z3.Intersect(AnyChar(), z3.Complement(lit("\n"))), k)
    if op is C.MAX_REPEAT or op is C.MIN_REPEAT:
        # as a language greedy and lazy repeats coincide; the inner pattern must be anchor-free
        _check_anchor_free(av[2])
        return cat(repeat(av, flags), k)
    if op is C.SUBPATTERN:
        group, add_flags, del_flags, sub = av
        if add_flags or del_flags:
            raise Unsupported("inline flags")
        return tr(list(sub) + list(ops[1:]), rest, flags)
    if op is C.BRANCH:
        _, alts = av
        return union(tr(list(a) + list(ops[1:]), rest, flags) for a in alts)
    raise Unsupported("op %s" % (op,))


def _anchor_free(sub):
    for op, av in sub:
        if op in (C.AT, C.ASSERT, C.ASSERT_NOT):
            return False
        if op in (C.MAX_REPEAT, C.MIN_REPEAT) and not _anchor_free(av[2]):
            return False
        if op is C.SUBPATTERN and not _anchor_free(av[3]):
            return False
        if op is C.BRANCH and not all(_anchor_free(a) for a in av[1]):
            return False
    return True


def _check_anchor_free(sub):
    if not _anchor_free(sub):
        raise Unsupported("anchor or look-around inside a repeat")


def lang_of_match(pattern):
    """z3 regex for { s | pattern.match(s) is not None }"""
    flags = pattern.flags & ~re.UNICODE
    if flags & ~(re.DOTALL):
        raise Unsupported("flags %r" % pattern.flags)
    ops = list(sre_parse.parse(pattern.pattern, pattern.flags))
    for i, (op, av) in enumerate(ops):
        if i > 0 and op is C.AT and av in (C.AT_BEGINNING, C.AT_BEGINNING_STRING):
            raise Unsupported("^ not in first position")
    return tr(ops, Full(), flags)


def _models(expr_builder, n, timeout_ms=20000):
    """up to n distinct strings satisfying expr_builder(s)"""
    s = z3.String("s")
    sol = z3.Solver()
    sol.set("timeout", timeout_ms)
    sol.add(expr_builder(s))
    out = []
    for _ in range(n):
        if str(sol.check()) != "sat":
            break
        v = sol.model().eval(s, model_completion=True).as_string()
        v = _unescape(v)
        out.append(v)
        sol.add(s != z3.StringVal(v))
    return out


def _unescape(v):
    # z3 prints non-printable / non-ASCII characters as \u{XX}
    return re.sub(r"\\u\{([0-9a-fA-F]+)\}", lambda m: chr(int(m.group(1), 16)), v)


def validate_translation(pattern, impl, n=16):
    """differential check of the translator: z3 models of InRe / not InRe through the real re.match"""
    bad = []
    for v in _models(lambda s: z3.InRe(s, impl), n):
        if pattern.match(v) is None:
            bad.append(("z3 says match, re says no", v))
    for v in _models(lambda s: z3.And(z3.Not(z3.InRe(s, impl)), z3.Length(s) <= 4), n):
        if pattern.match(v) is not None:
            bad.append(("z3 says no match, re says match", v))
    return bad


def second_opinion(smt2_text, timeout_s=60):
    """z3 4.8.12 binary on the same query; returns 'sat' | 'unsat' | 'unknown' | 'error'"""
    with tempfile.NamedTemporaryFile("w", suffix=".smt2", dir="/var/tmp", delete=True) as f:
        f.write(smt2_text)
        f.flush()
        try:
            p = subprocess.run(["/usr/bin/z3", "-T:%d" % timeout_s, f.name], capture_output=True, text=True, timeout=timeout_s + 10)
        except Exception:
            return "error"
    out = p.stdout.strip()
    if "(error" in out:
        return "error"
    first = out.splitlines()[0].strip() if out else "error"
    return first if first in ("sat", "unsat", "unknown") else "error"


def inclusion(impl, spec, timeout_ms=60000):
    """decide impl == spec as languages; returns dict with verdict and, if different, a witness"""
    res = {"queries": 0, "solver_s": 0.0, "smt_sizes": [], "second_opinion": []}
    for name, a, b in (("impl_minus_spec", impl, spec), ("spec_minus_impl", spec, impl)):
        s = z3.String("s")
        sol = z3.Solver()
        sol.set("timeout", timeout_ms)
        sol.add(z3.InRe(s, a), z3.Not(z3.InRe(s, b)))
        t = time.time()
        r = str(sol.check())
        res["solver_s"] += time.time() - t
        res["queries"] += 1
        text = sol.to_smt2()
        res["smt_sizes"].append(len(text))
        res["second_opinion"].append(second_opinion(text))
        if r == "sat":
            w = _unescape(sol.model().eval(s, model_completion=True).as_string())
            res.update(verdict="refuted", direction=name, witness=w)
            res["solver_s"] = round(res["solver_s"], 3)
            return res
        if r != "unsat":
            res.update(verdict="unknown", direction=name)
            res["solver_s"] = round(res["solver_s"], 3)
            return res
    res["verdict"] = "confirmed"
    res["solver_s"] = round(res["solver_s"], 3)
    return res
