"""What MANIFEST.json claims per property (consumed by vf/mkmanifest.py)."""
_BASE_NOTE = ("Trusted: CrossHair's symbolic models of str/int/list and z3 (for 'confirmed' verdicts only; every reported "
              "violation is re-executed on plain CPython before it is printed); the oracle in /verif/oracles or in the harness; "
              "bounds per condition as written to evidence (pre: lines). Nothing is claimed outside the bounds.")

CLAIMS = {
    "C03": {
        "technique": "bounded symbolic execution (CrossHair/z3): symbolic string contents through the real string printers re-lexed by a reference lexer; documents x indent settings through print -> parse -> print",
        "text": "Block strings: every parser-producible value of <= 2/3 symbolic characters, as a value (4 indents) and as a description, prints to one block string token with that value (exhausted). Quoted strings: same bound, sampled at the json.dumps boundary (reported as sampled). "
                "Documents: 71 documents covering every node kind and printer-specific string shapes x 5 indents: deterministic, re-parse equal up to positions, re-print identical.",
        "note": _BASE_NOTE + " Trees the parser cannot produce are outside the claim.",
    },
    "C15": {
        "technique": "bounded symbolic execution (CrossHair/z3): the standard introspection query on generated schemas against a reference computed from the schema objects; symbolic String defaults through _format_default_value",
        "text": "Generator schemas (12 default kinds x 4 recursion patterns) and a code-built schema x 2 executors: kinds, names, descriptions, fields, args, input fields, enum values, interfaces and possible types (as sets), directives, roots, deprecation equal the reference; "
                "each defaultValue parses back to the declared default. includeDeprecated absent/false/true; disable_introspection hides all meta-fields and nothing else. Every String default of <= 2/3 symbolic characters re-lexes to itself.",
        "note": _BASE_NOTE,
    },
    "C14": {
        "technique": "bounded symbolic execution (CrossHair/z3) over operation-sequence and predicate choice variables: clone / camel-case / visibility / extend applied repeatedly to the same source, checked by a closure + preservation + non-interference oracle",
        "text": "2 source schemas x every sequence of 1..3 operations (6 extension documents, 8-bit visibility predicates) on the same source: result closed (every reachable type is the registered object), removed elements absent from registry and introspection, every non-targeted attribute preserved "
                "(resolvers, default/type/subscription resolvers, python names, defaults, descriptions, deprecations), source unmodified, still closed, valid, prints the same.",
        "note": _BASE_NOTE + " User-defined SchemaVisitors other than the shipped transforms are not covered.",
    },
    "C12": {
        "technique": "bounded symbolic execution (CrossHair/z3): schema -> SDL -> schema round trips over generator and option choice variables, call-history sequences against a fresh-interpreter reference, symbolic description text through print_description; z3 regex equivalence for _INT_RE",
        "regex": True,
        "text": "Round trip: generator schemas (12 default kinds x 4 recursion patterns) and a code-built schema x 16 option sets: idempotent text, structurally equal rebuilt schema, equal reprint. History: every sequence of <= 3 earlier calls x 12 calls under test equals the first call of a fresh interpreter. "
                "Description kernel: every representable description of <= 2/3 symbolic characters at 12 print positions re-lexes to itself. _INT_RE == IntValue for every length.",
        "note": _BASE_NOTE + " Descriptions long enough to be re-wrapped are outside the claim.",
    },
    "C11": {
        "technique": "bounded symbolic execution (CrossHair/z3) over generator choice variables: build_schema on generated type-system documents vs the generator's declared-content record; labelled invalid documents",
        "text": "Content: descriptions, deprecations, 12 default kinds, 4 recursion patterns, schema definition, 8 presence masks, mutation. Layout: members of any one type split over 1-2 extend blocks x 3 definition orders x extension placement x ignore_extensions x additional_types. "
                "The built schema read back through public attributes equals the declared record exactly (nothing missing, nothing extra, extension members after base members). 33 labelled invalid documents raise only SDLError/SchemaError.",
        "note": _BASE_NOTE + " SDL outside the generator family is not covered.",
    },
    "C10": {
        "technique": "bounded symbolic execution (CrossHair/z3): truncated requests and failure placements through the real entry points against a response-format checker; symbolic index_to_loc; z3 regex equivalence for the line separator",
        "regex": True,
        "text": "Requests cut at every position (+0..2 lexer-relevant characters), 10 failure stages x messages x executors: strict JSON, string message, 1-based in-text locations, str/int paths, extensions passed through, no data on parse/validation failure, nulls <-> error paths bijection. "
                "index_to_loc decided on every body of <= 3/4 symbolic characters and every offset. LINE_SEPARATOR's language == {LF, CR, CRLF} for strings of every length.",
        "note": _BASE_NOTE + " Appended characters come from a fixed 20-character set (full character-level coverage of the lexer is C01's).",
    },
    "C06": {
        "technique": "bounded symbolic execution (CrossHair/z3) over documents, transformation subsets and small sub-languages: rule sets reported by the real validator are invariant under validity-preserving transformations and equal spec references on sub-languages",
        "text": "Metamorphic: 60 documents x subsets of 8 transformations x 4 re-spellings keep the set of violated rules and the verdict. Mutants: 30 single-rule mutants (all 26 rules) are reported by their rule. "
                "Spec equivalence, exhaustively: every spread graph on 3 fragments x 6 orders (cycles), variable use through fragment chains x 6 orders, operation-name sequences, possible spreads over the type lattice.",
        "note": _BASE_NOTE + " Equivalence with all 26 specification rules on arbitrary documents is NOT claimed: only the listed sub-languages and the template family.",
    },
    "C04": {
        "technique": "bounded symbolic execution (CrossHair/z3) over template, data-world, failure, variable and history choice variables: real graphql_blocking vs a reference executor transcribed from spec section 6",
        "text": "20 valid operation templates over a fixed 10-type schema x null placements x failing-resolver sets x variable assignments x request histories on the same Schema object: ordered data and the multiset of (error path, field location) equal the reference interpreter's.",
        "note": _BASE_NOTE + " 'All schemas / all operations' is this generator family.",
    },
    "C05": {
        "technique": "bounded symbolic execution (CrossHair/z3) over documents: valid templates, hand-written adversarial documents and every single-token edit of them; validation must not raise, a silent validator implies reference-equal execution",
        "text": "60 documents and all their single-token edits over a 44-token alphabet (thorough: exhaustive; quick: a budget-limited prefix, reported as inconclusive): validate_ast returns a list and never raises; if the list is empty, graphql_blocking does not raise and equals the reference executor (stronger than shape).",
        "note": _BASE_NOTE + " One fixed schema.",
    },
    "C17": {
        "technique": "bounded symbolic execution (CrossHair/z3) over event-stream choice variables: the real subscribe / AsyncMap pipeline on a deterministic event loop against a per-event reference",
        "text": "Every source stream of 0..3 (thorough 4) events with 9 outcome combinations per event, loop ticks before events, sync/async subscription and field resolvers: one result per event in order, k-th data and errors are exactly event k's, the stream ends with the source (N+1 __anext__ calls). 4 refused request kinds raise the documented exception before the source is consumed.",
        "note": _BASE_NOTE + " Event loop: DetLoop with a constant clock, real asyncio scheduling otherwise.",
    },
    "C08": {
        "technique": "bounded symbolic execution (CrossHair/z3) over schedule choice variables: the real executors and runtimes run under every completion order of in-flight resolver tasks (stub pool / deterministic loop) and are compared with the blocking baseline",
        "text": "For 6 operation templates, 4 resolver kinds on 3 field groups, and 4 executor/runtime configurations, every linear order in which up to 6 pending tasks complete is decided: result done (never pending), ordered data and error multiset equal to the BlockingExecutor baseline, unexpected exceptions surface as the failure of the overall result.",
        "note": _BASE_NOTE + " Completion orders are enumerated by the solver through schedule choice variables on a stub thread pool / deterministic event loop; callbacks are atomic (no pre-emption inside a future callback on real OS threads), which is outside the claim.",
    },
    "C09": {
        "technique": "bounded symbolic execution (CrossHair/z3) over schedule choice variables on mutation operations: resolver invocation logs under every completion order vs the serial baseline",
        "text": "5 mutation operations x failure positions x 4 configurations x every completion order of up to 7 in-flight tasks: no resolver of a later top-level field runs before the earlier field's subtree finished; failing fields do not stop later ones; response keys in document order.",
        "note": _BASE_NOTE + " Completion orders are enumerated by the solver through schedule choice variables on a stub thread pool / deterministic event loop; callbacks are atomic (no pre-emption inside a future callback on real OS threads), which is outside the claim.",
    },
    "C16": {
        "technique": "bounded symbolic execution (CrossHair/z3) over outcome, stack-size and schedule choice variables: recorded hook/middleware/resolver event logs of the real pipeline checked by a pushdown event-log checker",
        "text": "8 request outcomes x 4 configurations x 1..3 stacked instrumentations x 0..3 middlewares x every completion order: stage hooks pair up and nest, each at most once; per resolved field one start before and one end after the resolver; middlewares once each in the documented order; stacked starts in order, ends reversed.",
        "note": _BASE_NOTE + " Completion orders are enumerated by the solver through schedule choice variables on a stub thread pool / deterministic event loop; callbacks are atomic (no pre-emption inside a future callback on real OS threads), which is outside the claim.",
    },
    "C18": {
        "technique": "bounded symbolic execution (CrossHair/z3) of one traversal step of the real ASTVisitor per node kind, against a grammar child table; chained visitors; dispatch totality",
        "text": "Structural induction step: for each of the 42 node kinds and up to 6 parsed instances (0/1/2 elements per list, optionals on/off), with any single direct child kept, deleted, replaced or skipped, "
                "the depth-1 event sequence, the returned node and the post-state of every slot equal the oracle's. Chained visitors: 1..3 visitors, any one deleting/skipping. Dispatch: all 42 kinds.",
        "note": _BASE_NOTE + " 'every finite tree' follows by induction on height from the per-kind step - an argument, not a query. Slots listed as known findings are excluded via vf/known.py.",
    },
    "C20": {
        "technique": "bounded symbolic execution (CrossHair/z3) of diff_schema and its safe-type-change predicates on solver-chosen wrapper lists and elementary edits, against a variance oracle and a client corpus",
        "text": "Predicates: all 19x19 wrapper pairs x same/other named type x input/output: real 'safe' implies the variance oracle. Edits: every single and every compatible pair of 36 elementary edits, "
                "and 7 retyping sites x 8 wrapper lists: identical => no change, edit => change naming the element, result independent of definition order, no BREAKING => the client corpus stays valid.",
        "note": _BASE_NOTE + " 'Every operation valid against the old schema' is a fixed corpus of 25 operations; PYTHONHASHSEED is fixed to 0 in the workers (hash-order independence is only exercised through definition order).",
    },
    "C19": {
        "technique": "bounded symbolic execution (CrossHair/z3) of MaxDepthValidationRule on solver-chosen selection trees with a symbolic limit, against a reference depth",
        "text": "Every document of the generator family (chains up to depth 3 wrapped in inline/named fragments at the top and below, @skip/@include on variables, merged same-key branches, two operations with name filter) "
                "is decided: an error is reported exactly when reference depth > limit, never an exception; limit symbolic in [-1000, 1000] for the two-operation family and every value -1..4 for the single-operation family.",
        "note": _BASE_NOTE + " Documents outside the generator family are not covered.",
    },
    "C13": {
        "technique": "z3 regex-language equivalence for the live name pattern (unbounded); bounded symbolic execution (CrossHair/z3) of the real SchemaValidator on solver-chosen type shapes and labelled violations",
        "regex": True,
        "text": "Names: the language of the live VALID_NAME_RE equals the specification's, for strings of every length (two z3 inclusion queries). Covariance: all 55x55 "
                "wrapper/base pairs decided against IsValidImplementationFieldType. Rules: every single and every compatible pair of 29 labelled violations, at 5 wrapper depths, 6 bad names, 3 type orders. "
                "Resolver signatures and validate() cache: all combinations in the stated tables.",
        "note": _BASE_NOTE + " Schema shapes are the harness's generator family, not all schemas.",
    },
    "C01": {
        "technique": "bounded symbolic execution (CrossHair/z3): real lexer vs reference lexer on symbolic strings; real parser on solver-chosen token sequences vs Earley recogniser of the June-2018 grammar",
        "text": "Character level: every string up to 2 (quick) / 3 (thorough) symbolic characters, plus shaped prefixes reaching deep lexer states, "
                "is decided by z3 path class by path class against a reference lexer. Token level: every token sequence up to the bound and every "
                "single-token edit of a production-covering seed corpus is decided against an Earley recogniser. Rejections must be the library's syntax error with an in-range position.",
        "note": _BASE_NOTE + " Composition lexer==reference and parser==grammar => parse==grammar is an argument, not a query. Number followed by digit or '.' is don't-care.",
    },
    "C02": {
        "technique": "bounded symbolic execution (CrossHair/z3): symbolic block-string contents through parse_block_string vs BlockStringValue(); solver-chosen placements of ignorable characters with span arithmetic and span re-parsing",
        "text": "Block string values for every raw content of <= 3 (thorough 4) symbolic characters equal BlockStringValue(). Spans: 3 documents covering every node kind x 10 ignorable gap strings x placements x widths x prefixes x no_location: same tree, "
                "span = (first token start, last token end), Document = (0, len), spanned text parses back to an equal node, loc None when disabled. Token values and offsets (escape decoding, verbatim numbers) are decided by the C01 lexer conditions, whose comparison includes value/start/end.",
        "note": _BASE_NOTE + " Spans in documents that are not instances of the three templates are outside the claim.",
    },
    "C07": {
        "technique": "bounded symbolic execution (CrossHair/z3) of coerce_value / value_from_ast / coerce_argument_values against a spec coercion oracle",
        "text": "Every path class of the real coercion code inside the stated bounds is decided by z3 against a reference "
                "transcription of the spec's input coercion; counterexamples are concrete and replayed.",
        "note": _BASE_NOTE,
    },
}

# Later rounds (DESIGN.md section 8.2 is the authoritative list of conditions and bounds; the evidence files carry the literal pre: lines)
_ADDENDA = {
    "C01": " UTF-8 byte input: every cut of the seed texts x non-ASCII prefixes / suffixes parses exactly like the text (bytes_equiv).",
    "C02": " Quoted-string values: shaped strings with a symbolic middle (after a backslash, inside \\u, after an ESCAPED backslash) decode to the reference value with the token's span (string_value).",
    "C03": " Mixed documents: every ordered pair of 50 definition texts (definition_pairs); strings of a 20-character alphabet in 10 contexts (string_in_context).",
    "C04": " Every condition runs BlockingExecutor AND the generic Executor and compares their common answer with the reference. Leaf completion as a product of leaf type x falsy / cross-type-equal values x wrappers x value sources x request history (leaf_values).",
    "C05": " Both executors are compared with the reference. One fragment reused at two places with a same-key sibling at one of them (fragment_reuse); nested / triple / response-shape conflicts against spec references.",
    "C06": " Spread placement (direct, nested, two depths) in the cycle graphs; operations named like fragments; placements, directive locations and variable positions as products.",
    "C07": " CoerceArgumentValues as a full product (argument_matrix); variables inside list / object literals at 12 positions x 6 supplies (nested_variables); one node under two object types.",
    "C08": " Resolvers that hand their work to the runtime again (info.runtime.submit) on a one-worker stub pool (starvation is detected); 7 classes of unexpected exception; shared resolver function.",
    "C09": " Top-level fields failing while their value is completed; 10 spellings; one object type as both roots; meta-fields between mutations.",
    "C10": " 20 failure stages incl. directives evaluated with null variables at the root / nested / in mutations and scalars serialising to null; serialised error paths against the reference executor.",
    "C11": " The same declarations delivered as build_schema + extend_schema (sdl_two_step); additional_types objects reused across builds; root naming variants; empty deprecation reasons.",
    "C12": " Code-built object defaults with keys in another order than the fields; empty deprecation reasons; 12 text variants on every description and reason.",
    "C13": " Violations of an interface's own definition x implementation violations x the order in which types are reached; reported message sets equal across orders; interfaces that are not interface types.",
    "C14": " Every default of every derived schema is written as a literal and read back; chained operation sequences; derived schemas are used through the registration API; directives with user-typed arguments.",
    "C15": " Members deprecated with the empty reason; all-subclass schemas; includeDeprecated through variables and __type.",
    "C16": " 20 outcomes incl. every selection switched off by @skip / @include and a root directive evaluated with a null variable; partially overriding stacked instrumentations.",
    "C17": " The root field occurring several times with different sub-selections; falsy / container events x initial values; 15 refused / served spellings.",
    "C19": " History of the rule object (the same parsed document checked before with other variable values).",
    "C20": " Two positions retyped in one diff compose (retype_compose); non-null positions losing their default; code-built enums; root operation types (known finding).",
}
for _k, _v in _ADDENDA.items():
    CLAIMS[_k]["text"] += _v

# Round 6
_ADDENDA6 = {
    "C01": " Every grammar sentence with every contiguous span of 1..3 tokens removed (span_edits).",
    "C02": " Sources with wrappers and brackets nested several deep (list types, list / object values, selection sets) in spans.",
    "C03": " One printer object reused across documents (printer_reuse).",
    "C04": " The value resolved for an Int position as a SYMBOLIC integer through both executors (int_result: data-symbolic, z3 decides the 32-bit range checks). Every condition also runs a third leg: the generic Executor on the stub thread pool with the tasks completed last-submitted-first.",
    "C05": " Third leg of every comparison: the generic Executor on the stub thread pool, tasks completed last-submitted-first. List / object literals at custom-scalar positions (custom_scalar_literals). One fragment spread several times in one selection set with some spreads switched off (spread_directives).",
    "C06": " Ordered pairs of spellings of compound argument values in merged fields (argument_spellings).",
    "C08": " A deferred value produced by the object's own method and found by the default resolver.",
    "C09": " A list-typed top-level field that fails while a later item is completed after the sub-selection of an earlier item has been started.",
    "C10": " GetOperation as a product of documents x operation names x entry points (operation_selection); numbers too large for a float as Float variable values; the variable-coercion stage uses its variable (the older stage was refused by validation already). A symbolic error message and extensions value through the real executors arrive unchanged (resolver_message: data-symbolic).",
    "C11": " A member declared twice as a product of member kind x placement of the two occurrences x route (sdl_duplicates).",
    "C12": " The white-list form of include_custom_schema_directives as a product over every subset of names (directive_whitelist); string defaults of custom scalars that look like numbers (scalar_default_texts).",
    "C13": " Late resolver registrations on a validated schema.",
    "C14": " Every set of hidden named types x follow-ups (hide_sets); closed() also compares the derived indexes (implementations, possible types) with the registry.",
    "C15": " Three schemas built from the same type objects introspected in every order (shared_types).",
    "C16": " Requests refused at variable coercion (missing / wrong type / null; query, mutation, parsed document) with an anti-vacuity assertion.",
    "C17": " Events whose execution aborts with a non-field exception: the later events are still delivered (aborted_events).",
    "C18": " The node under test replaced by enter() while one of its children is kept / deleted / replaced / skipped (parent_replace).",
    "C19": " Operations whose deepest path runs through meta-fields (depth_meta); the rule as validator of the public entry points with the request's variables (depth_entry). The limit as a SYMBOLIC integer through the real rule: flagged iff depth > limit for every limit (depth_symbolic_limit: data-symbolic).",
    "C20": " Schemas derived from one another and new-in-both elements (derived_new).",
}
for _k, _v in _ADDENDA6.items():
    CLAIMS[_k]["text"] += _v

# Round 7
_ADDENDA7 = {
    "C02": " Sources in which one name / keyword-like token occurs at many places (nodes are never shared between occurrences).",
    "C07": " Whole-number floats at and beyond the 32-bit edges through variables at 8 Int positions (int_whole_floats).",
    "C10": " Completion-time failures on the deferred runtimes under every completion order are answered like the blocking executor (deferred_containment).",
    "C12": " Directives on definitions and on their extensions under repeated printing.",
    "C13": " An object implementing two interfaces that declare the same field: messages for the pair == union of the messages for each alone (two_interfaces).",
    "C15": " Type references with up to 7 wrappers read back from the standard introspection query (deep_wrappers).",
    "C20": " Several unions sharing members: every single / double membership flip (multi_unions).",
}
for _k, _v in _ADDENDA7.items():
    CLAIMS[_k]["text"] += _v

NOT_APPLICABLE = {}
