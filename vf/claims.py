"""What MANIFEST.json claims per property (consumed by vf/mkmanifest.py)."""
_BASE_NOTE = ("Trusted: CrossHair's symbolic models of str/int/list and z3 (for 'confirmed' verdicts only; every reported "
              "violation is re-executed on plain CPython before it is printed); the oracle in /verif/oracles or in the harness; "
              "bounds per condition as written to evidence (pre: lines). Nothing is claimed outside the bounds.")

CLAIMS = {
    "C07": {
        "technique": "bounded symbolic execution (CrossHair/z3) of coerce_value / value_from_ast / coerce_argument_values against a spec coercion oracle",
        "text": "Every path class of the real coercion code inside the stated bounds is decided by z3 against a reference "
                "transcription of the spec's input coercion; counterexamples are concrete and replayed.",
        "note": _BASE_NOTE,
    },
}

NOT_APPLICABLE = {}
