"""Create the overlay venv /verif/.venv (CPython of /venv + crosshair-tool from the offline
wheelhouse).  Idempotent and lock protected; runs under /venv/bin/python."""
import fcntl
import os
import subprocess
import sys

ROOT = os.environ.get("VERIF_ROOT") or os.path.dirname(os.path.dirname(os.path.abspath(__file__)))
VENV = os.path.join(ROOT, ".venv")
WHEELS = "/opt/veriftools/wheels"
BASE_SITE = "/venv/lib/python3.12/site-packages"


def ok():
    py = os.path.join(VENV, "bin", "python")
    if not os.path.exists(py):
        return False
    r = subprocess.run(
        [py, "-c", "import crosshair, z3, py_gql; print(crosshair.__version__)"],
        capture_output=True,
        text=True,
    )
    return r.returncode == 0


def main():
    if ok():
        return 0
    with open(os.path.join(ROOT, ".bootstrap.lock"), "w") as lock:
        fcntl.flock(lock, fcntl.LOCK_EX)
        if ok():
            return 0
        subprocess.run(["rm", "-rf", VENV])
        subprocess.check_call(["/venv/bin/python", "-m", "venv", VENV])
        sp = os.path.join(VENV, "lib", "python3.12", "site-packages")
        with open(os.path.join(sp, "_overlay.pth"), "w") as f:
            f.write("import site; site.addsitedir(%r)\n" % BASE_SITE)
        env = dict(os.environ, PIP_NO_INDEX="1")
        subprocess.check_call(
            [os.path.join(VENV, "bin", "pip"), "install", "-q", "--no-index", "--find-links", WHEELS, "crosshair-tool"],
            env=env,
        )
        if not ok():
            print("bootstrap: overlay venv not usable", file=sys.stderr)
            return 1
    return 0


if __name__ == "__main__":
    sys.exit(main())
