"""Harness-side vocabulary: condition table rows and the few run-time helpers harness
bodies use.  Importable with and without CrossHair (replays run on plain CPython)."""
import contextlib
import os
from dataclasses import dataclass, field
from typing import Any, Callable, Dict, List, Optional

SHARD = int(os.environ.get("VF_SHARD", "-1"))       # shard index of this worker (-1: unsharded)
NSHARDS = int(os.environ.get("VF_NSHARDS", "1"))
TWIN = os.environ.get("VF_TWIN", "0") == "1"         # reachability-twin mode
TIER = os.environ.get("VF_TIER", "quick")

# per-process log of what each executed path reported (reset by the worker per iteration)
REACHED: List[bool] = []


def thorough() -> bool:
    return TIER == "thorough"


def result(ok, reached=True):
    """Return value of every harness body.  `reached` says whether this path got into the
    region the property is about (anti-vacuity).  In twin mode the post-condition becomes
    'the interesting region is never reached', which must be REFUTED."""
    r = True if reached else False
    REACHED.append(r)
    if TWIN:
        return not r
    return True if ok else False


def shard_of(k: int) -> bool:
    """pre-condition helper: keep only the part of the space that belongs to this shard."""
    if SHARD < 0 or NSHARDS <= 1:
        return True
    return k % NSHARDS == SHARD


def _tracing():
    try:
        from crosshair.tracers import is_tracing
        return is_tracing()
    except Exception:
        return False


def untraced():
    """Context manager: run an all-concrete phase without CrossHair's tracer."""
    if _tracing():
        from crosshair.tracers import NoTracing
        return NoTracing()
    return contextlib.nullcontext()


def retraced():
    """Inside untraced(): re-enter tracing (for a nested decode of a symbolic value)."""
    try:
        from crosshair.statespace import optional_context_statespace
        from crosshair.tracers import ResumedTracing, is_tracing
        if optional_context_statespace() is not None and not is_tracing():
            return ResumedTracing()
    except Exception:
        pass
    return contextlib.nullcontext()


def concrete_int(v, lo: int, hi: int) -> int:
    """Turn a (possibly symbolic) int in [lo, hi] into a concrete one by binary search on
    `<` (each comparison is one solver decision; log2 decisions per value)."""
    while lo < hi:
        mid = (lo + hi) // 2
        if v <= mid:
            hi = mid
        else:
            lo = mid + 1
    return lo


def concrete_bool(b) -> bool:
    return True if b else False


@dataclass
class Cond:
    name: str
    fn: Callable                       # bool-returning harness body (PEP316 docstring when kind == crosshair)
    kind: str = "crosshair"            # crosshair | z3 | concrete
    quick: float = 30.0                # CPU seconds (per shard)
    thorough: float = 300.0
    per_path: float = 20.0
    shards_quick: int = 1
    shards_thorough: int = 1
    bound: str = ""                    # human text; the literal pre: lines are read from the docstring
    bound_thorough: str = ""
    symbolic: Dict[str, str] = field(default_factory=dict)   # variable -> data|choice + meaning
    assumptions: List[str] = field(default_factory=list)
    witness: Optional[Dict[str, Any]] = None  # default concrete arguments (dry run, function coverage)
    twin: bool = True
    solve: Optional[Callable] = None   # kind == z3: solve(tier) -> dict(verdict, cex, queries, solver_s, detail)
    expect_exhaust: bool = True
    tiers: tuple = ("quick", "thorough")
    cases: Optional[Callable] = None   # kind == concrete: () -> list of argument dicts


def pick(v, options):
    """decode a (possibly symbolic) index into a concrete element of `options`"""
    return options[concrete_int(v, 0, len(options) - 1)]
