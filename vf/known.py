"""Root-cause exclusion predicates for defects listed in /verif/known_findings.json.
Each is conjoined (negated) to the pre-condition of the affected conditions so that the
solver keeps searching the rest of the bound.  They run under CrossHair tracing on symbolic
values, so they only use comparisons.  Listed verbatim in evidence via the pre: lines."""
