"""Root-cause exclusion predicates for defects listed in /verif/known_findings.json.
Each is conjoined (negated) to the pre-condition of the affected conditions so that the
solver keeps searching the rest of the bound.  They run under CrossHair tracing on symbolic
values, so they only use comparisons.  Listed verbatim in evidence via the pre: lines.
With VF_NO_EXCLUSIONS=1 (set by the runner when it replays the listed witnesses) every
predicate is False, so the witness shows the defect itself."""
import os

ENABLED = os.environ.get("VF_NO_EXCLUSIONS", "0") != "1"



def c01_pos_past_truncated_escape(s, pos) -> bool:
    """KF C01-escape-position: a quoted string cut inside an escape sequence ('...\\' or
    '...\\uX' at end of input) reports position len(s)+1.  tests/test_lang/test_lexer.py pins
    these positions, so the lexer cannot be repaired; rendering was repaired (fixed entry)."""
    if not ENABLED:
        return False
    n = len(s)
    if pos != n + 1 or n == 0:
        return False
    if s[n - 1] == "\\":
        return True
    k = n - 1
    cnt = 0
    while k >= 0 and cnt < 4 and s[k] != "u":
        k -= 1
        cnt += 1
    return k >= 1 and s[k] == "u" and s[k - 1] == "\\"


def c13_unchecked_name_site(violation, name) -> bool:
    return False
