"""Root-cause exclusion predicates for defects listed in /verif/known_findings.json.
Each is conjoined (negated) to the pre-condition of the affected conditions so that the
solver keeps searching the rest of the bound.  They run under CrossHair tracing on symbolic
values, so they only use comparisons.  Listed verbatim in evidence via the pre: lines.
With VF_NO_EXCLUSIONS=1 (set by the runner when it replays the listed witnesses) every
predicate is False, so the witness shows the defect itself."""
import os

ENABLED = os.environ.get("VF_NO_EXCLUSIONS", "0") != "1"



def c01_pos_past_truncated_escape(s, pos) -> bool:
    """KF C01-escape-position: a quoted string cut inside an escape sequence ('...\\' or
    '...\\uX' at end of input) reports position len(s)+1.  tests/test_lang/test_lexer.py pins
    these positions, so the lexer cannot be repaired; rendering was repaired (fixed entry)."""
    if not ENABLED:
        return False
    n = len(s)
    if pos != n + 1 or n == 0:
        return False
    if s[n - 1] == "\\":
        return True
    k = n - 1
    cnt = 0
    while k >= 0 and cnt < 4 and s[k] != "u":
        k -= 1
        cnt += 1
    return k >= 1 and s[k] == "u" and s[k - 1] == "\\"


def c13_unchecked_name_site(violation, name) -> bool:
    return False


def c20_safe_retype_unreported() -> bool:
    """KF C20-safe-retype-silent: a compatible retyping (e.g. input Int! -> Int, output Int -> Int!) is not
    reported at all; diff_schema's docstring documents that 'compatible type changes are ignored'."""
    return ENABLED


def c20_output_list_item_relaxed(old_w, new_w, same) -> bool:
    """KF C20-output-list-items: in OUTPUT position the item type of a list is compared with the INPUT rule, so
    dropping '!' on list items ([T!] -> [T]) is classified safe.  Root cause class: the new type would be a
    subtype of the old one if every '!' inside the old type's list items were dropped.  A correct item rule
    contradicts tests/test_schema/test_diff_schema.py ('[Int] to [Int!]' must be reported), so it is not repaired."""
    if not ENABLED:
        return False
    k = old_w.find("[")
    if k < 0:
        return False
    relaxed = old_w[: k + 1] + old_w[k + 1:].replace("!", "")
    from harness.c20 import subtype
    return subtype(new_w, relaxed, same) and not subtype(new_w, old_w, same)


# KF C18: child slots the visitor never traverses, and kinds whose children are traversed out of source order.
# Each is pinned by the literal event lists in tests/test_lang/test_visitor.py (adding or reordering events for
# the kitchen-sink documents fails them), so they cannot be repaired without editing tests.
C18_UNVISITED = {
    ("ListType", "type"), ("NonNullType", "type"), ("VariableDefinition", "variable"),
    ("FragmentDefinition", "type_condition"), ("InlineFragment", "type_condition"),
}
C18_MISORDERED = {"VariableDefinition", "SchemaDefinition", "SchemaExtension", "FieldDefinition"}


def c18_unvisited_slot(kind, slot) -> bool:
    if not ENABLED:
        return False
    return (kind, slot) in C18_UNVISITED or slot == "description"


def c18_misordered_kind(kind) -> bool:
    return ENABLED and kind in C18_MISORDERED


def c07_excluded(t, v, exp) -> bool:
    return False


def c10_columne() -> bool:
    """KF C10-columne: GraphQLSyntaxError.to_dict() spells the location key 'columne'; pinned by tests/test_graphql.py."""
    return ENABLED


def c10_cr_lines(text) -> bool:
    """index_to_loc counts only LF as a line break while the specification also counts CR / CRLF; with a bare CR in the
    text the (line, column) pair is relative to LF-lines.  Accepted here: the property only requires 'inside the submitted document'
    and the LF-line reading is self-consistent; texts containing CR are not checked for the column bound."""
    return "\r" in text


def c10_nonfinite_floats() -> bool:
    """KF C10-nonfinite-floats: a Float field resolving to NaN / +-inf is copied into the response, which then is not
    strict JSON.  The specification wants a field error; the library turns serialisation failures into RuntimeError
    (a crash of the whole request, by design and pinned by tests), so a contained repair is not a small patch."""
    return ENABLED


def c11_accepted_invalid(label) -> bool:
    """KF C11-extend-unknown-ignored: build_schema applies extensions in non-strict mode, which (documented on
    extend_schema) silently ignores an extension of a type that is not defined anywhere."""
    return ENABLED and label == "extend-unknown"


def c12_desc_excluded(d) -> bool:
    return False


def c15_string_default_text(s) -> bool:
    """KF C15-string-default-unescaped: a String/ID/custom-scalar default is reported as '"' + value + '"' without escaping,
    so a default containing a quote, a backslash or a character that may not appear raw in a string is not valid GraphQL.
    tests/test_execution/test_introspection.py pins the unescaped form (a raw form feed inside the quotes)."""
    if not ENABLED:
        return False
    for c in s:
        if c == '"' or c == "\\" or (c < " " and c != "\t"):
            return True
    return False


def c15_string_default(exp) -> bool:
    d = exp.get("default")
    return isinstance(d, str) and c15_string_default_text(d)


def c03_member_descriptions_dropped(kind) -> bool:
    """KF C03-member-descriptions-dropped: print_ast drops the descriptions of field definitions, input value definitions
    (arguments, input fields) and enum value definitions.  tests/test_lang/test_ast_printer.py::test_schema_kitchen_sink pins
    the output without them, so printing them cannot be added without editing a test."""
    return ENABLED and kind in ("FieldDefinition", "InputValueDefinition", "EnumValueDefinition")


def c11_default_uses_extension_field(rec, base_rec) -> bool:
    """KF C11-default-uses-extension-field: SDL defaults are coerced while the base definitions are built, before
    `extend input` blocks are merged; a default that sets an input field declared only in an extension is rejected
    (SDLError 'Field ... is not defined') although the document as a whole is valid.  Root cause: two-phase build."""
    if not ENABLED:
        return False

    def uses_missing(type_expr, v):
        base = type_expr.strip("[]!")
        t = base_rec["types"].get(base)
        if isinstance(v, list):
            return any(uses_missing(type_expr, x) for x in v)
        if not (isinstance(v, dict) and t and t["kind"] == "input"):
            return False
        names = {f["name"]: f for f in t["fields"]}
        for k, x in v.items():
            if k not in names:
                return True
            if uses_missing(names[k]["type"], x):
                return True
        return False
    for t in rec["types"].values():
        for f in t.get("fields", []) if t["kind"] in ("object", "interface") else []:
            for a in f.get("args", []):
                if a.get("default") and uses_missing(a["type"], a["default"][1]):
                    return True
    return False


def c07_omitted_variable_in_literal(present: bool) -> bool:
    """KF C07-omitted-variable-inside-literal: a variable WITHOUT a runtime value used inside an object or list literal
    (f(i: {a: $v}), f(l: [1, $v])) raises UnknownVariable (a field error) instead of being treated as an absent field /
    a null item as the specification's literal coercion says; pinned by tests/test_utilities/test_value_from_ast.py
    (test_it_omits_input_object_fields_for_unprovided_variables, test_it_asserts_variables_are_provided_as_items_in_lists)."""
    return ENABLED and not present


def c10_subscription_through_query_entry_point() -> bool:
    """KF C10-subscription-operation-raises: a `subscription` operation sent through graphql_blocking / process_graphql_query / graphql makes
    execute() raise RuntimeError ("`execute` does not support subscriptions, use the `subscribe` helper") instead of giving an error response;
    the RuntimeError is the documented contract of execute() ("Raises: RuntimeError: on invalid operation"), so the behaviour is recorded, not changed."""
    return ENABLED


def c14_hidden_input_field_in_default(hidden_fields, key) -> bool:
    """KF C14-hidden-input-field-in-default: VisibilitySchemaTransform removes a hidden input field from its input type but not
    from the default values (of arguments, input fields, directive arguments) that mention it, so resolvers still receive the
    hidden key while the printed / introspected default has lost it.  Repairing it means rewriting every default whose type
    reaches the input type at any depth - not a small patch.  Root cause class: a key of a default that names a hidden input field."""
    if not ENABLED:
        return False
    return key in hidden_fields


def c20_root_types_not_compared() -> bool:
    """KF C20-root-types-not-compared: diff_schema never looks at the root operation types, so moving the query root to another existing
    type or dropping the mutation root (its object type staying reachable) yields no change at all although operations stop validating.
    A repair needs new public SchemaChange classes for root types - an API decision, recorded rather than repaired."""
    return ENABLED


def c12_bare_item_for_list_default() -> bool:
    """KF C12-bare-item-for-list-default: a code-built default of a list type given as a bare item (`[Int]` with default 5) is written `= 5`;
    the rebuilt schema holds the coerced list and prints `= [5]`.  tests/test_utilities/test_ast_node_from_value.py pins the bare form
    (test_ast_node_from_value_with_list_types: 'FOO' for [String] -> StringValue), so the literal cannot be changed without editing a test."""
    return ENABLED


def c15_variable_definition_location(locs) -> bool:
    """KF C15-variable-definition-location: the SDL parser and Directive accept the location VARIABLE_DEFINITION, but the __DirectiveLocation
    introspection enum has no such value: introspecting a schema with `directive @v on VARIABLE_DEFINITION` raises RuntimeError (the location cannot
    be serialised).  Adding the value changes the introspection schema, which tests/test_execution/test_introspection.py::test_introspection_query
    and tests/test_schema/test_schema_printer.py::test_introspection_schema pin, so it cannot be repaired without editing a test."""
    return ENABLED and "VARIABLE_DEFINITION" in locs
