"""Tool-side work-arounds for crosshair-tool 0.0.110.  Imported first by the worker.  Nothing
here touches py_gql."""
import os
import random
import re

import crosshair.core as core
import crosshair.core_and_libs  # noqa: F401  (registers the library patches first)
import crosshair.opcode_intercept as oi
import crosshair.statespace as statespace
from crosshair.core import deep_realize

# (1) class objects are concrete dict keys: keeps >16-entry dict displays real dicts
#     (BUILD_MAP 0 / MAP_ADD / DICT_UPDATE -> SystemError otherwise).
oi.ATOMIC_IMMUTABLE_TYPES = frozenset(set(oi.ATOMIC_IMMUTABLE_TYPES) | {type})

# (2) "%s"-only formatting of str arguments is concatenation and stays symbolic; every
#     other format falls back to the stock behaviour (deep-realise the arguments).
_SPEC = re.compile(r"%(.)")


def _percent(self, other):
    args = other if isinstance(other, tuple) else (other,)
    if isinstance(self, str) and type(self) is str:
        specs = _SPEC.findall(self)
        if (
            not isinstance(other, dict)
            and all(c in "s%" for c in specs)
            and specs.count("s") == len(args)
            and all(isinstance(a, (str, int)) for a in args)
        ):
            args = tuple(a if isinstance(a, str) else str(a) for a in args)
            out, it, i, n = "", iter(args), 0, len(self)
            while i < n:
                if self[i] == "%":
                    out += "%" if self[i + 1] == "%" else next(it)
                    i += 2
                else:
                    j = self.find("%", i)
                    j = n if j < 0 else j
                    out += self[i:j]
                    i = j
            return out
    return self.__mod__(deep_realize(other))


core._PATCH_REGISTRATIONS[str.__mod__] = _percent

# (3) seed: VERIF_SEED is mixed into the search RNG; 0 keeps the stock constant
_SEED = int(os.environ.get("VERIF_SEED", "0") or 0)
if _SEED:
    def _newrandom():
        return random.Random(1801243388510242075 ^ _SEED)
    statespace.newrandom = _newrandom

# (4) str(exc) for a plain exception with one string argument is that argument.  The stock
#     patch ends in BaseException.__str__ (C), which realises a symbolic message.
from crosshair.libimpl.builtinslib import AnySymbolicStr  # noqa: E402
from crosshair.tracers import NoTracing  # noqa: E402

from crosshair.libimpl.builtinslib import invoke_dunder  # noqa: E402
from crosshair.tracers import ResumedTracing  # noqa: E402


def _str(*a):
    with NoTracing():
        if len(a) == 1:
            (e,) = a
            if isinstance(e, AnySymbolicStr):
                return e
            if (
                isinstance(e, BaseException)
                and type(e).__str__ is BaseException.__str__
                and len(e.args) == 1
                and isinstance(e.args[0], (str, AnySymbolicStr))
            ):
                return e.args[0]
            with ResumedTracing():
                return invoke_dunder(e, "__str__")
    return str(*a)


core._PATCH_REGISTRATIONS[str] = _str

# (5) int(symbolic_str, 16) stays symbolic when every character is an ASCII hex digit (the
#     stock patch realises for bases above 10).  Everything else: stock behaviour.
from crosshair.libimpl.builtinslib import SymbolicInt  # noqa: E402
from crosshair.core import realize  # noqa: E402

_stock_int = core._PATCH_REGISTRATIONS[int]
_NOARG = object()


def _int(val=0, base=_NOARG):
    hexcase = False
    with NoTracing():
        if isinstance(val, AnySymbolicStr) and base is not _NOARG and type(base) is int and base == 16:
            hexcase = True
    if hexcase:
        n = len(val)
        if 1 <= n <= 8:
            ret = 0
            good = True
            for ch in val:
                o = ord(ch)
                if 48 <= o <= 57:
                    ret = ret * 16 + (o - 48)
                elif 97 <= o <= 102:
                    ret = ret * 16 + (o - 87)
                elif 65 <= o <= 70:
                    ret = ret * 16 + (o - 55)
                else:
                    good = False
                    break
            if good:
                return ret
        return int(realize(val), 16)
    if base is _NOARG:
        return _stock_int(val)
    return _stock_int(val, base)


core._PATCH_REGISTRATIONS[int] = _int
