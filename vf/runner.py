"""check <Cxx> [--tier quick|thorough]   |   check --replay <file>
Runs every condition of harness/<cxx>.py (one worker process per condition/shard/twin, up to
16 at once), replays counterexamples on plain CPython, applies known_findings.json, writes
evidence/<id>.json.  Exit: 0 held on everything explored, 1 violation, 3 harness error."""
import argparse
import concurrent.futures as cf
import hashlib
import importlib
import json
import os
import re
import subprocess
import sys
import tempfile
import time

ROOT = os.environ.get("VERIF_ROOT") or os.path.dirname(os.path.dirname(os.path.abspath(__file__)))
REPO = os.environ.get("VF_REPO", "/repo")   # experiments on a scratch worktree; registered commands use /repo
VPY = os.path.join(ROOT, ".venv", "bin", "python")
PLAIN = "/venv/bin/python"
NPROC = int(os.environ.get("VF_JOBS", "16"))


def env_for(**extra):
    e = dict(os.environ)
    e["PYTHONPATH"] = ROOT + os.pathsep + os.path.join(REPO, "src")
    e["PYTHONDONTWRITEBYTECODE"] = "1"
    e["PYTHONHASHSEED"] = "0"
    e.update({k: str(v) for k, v in extra.items()})
    return e


def run_worker(module, cond, tier, shard, nshards, twin, budget, tmpdir):
    tag = "%s-%s-%s%s" % (cond.name, shard, tier, "-twin" if twin else "")
    out = os.path.join(tmpdir, tag + ".json")
    log = os.path.join(tmpdir, tag + ".log")
    env = env_for(VF_SHARD=shard, VF_NSHARDS=nshards, VF_TWIN="1" if twin else "0", VF_TIER=tier, VF_BUDGET=budget)
    wall = budget * 2.5 + 120
    t0 = time.time()
    try:
        with open(log, "w") as lf:
            p = subprocess.run([VPY, "-m", "vf.worker", module, cond.name, tier, out], env=env, cwd=ROOT,
                               stdout=lf, stderr=subprocess.STDOUT, timeout=wall)
        rc = p.returncode
    except subprocess.TimeoutExpired:
        rc = -9
    res = None
    if os.path.exists(out):
        try:
            res = json.load(open(out))
        except Exception:
            res = None
    if res is None:
        tail = ""
        try:
            tail = open(log).read()[-2000:]
        except Exception:
            pass
        res = {"condition": cond.name, "shard": shard, "twin": twin, "verdict": "error",
               "detail": "worker produced no result (rc=%s, wall %.0fs)" % (rc, time.time() - t0), "log_tail": tail}
    res.setdefault("condition", cond.name)
    res["shard"], res["twin"] = shard, twin
    return res


def plain_replay(requests, tmpdir, tag="replay", **extra_env):
    req = os.path.join(tmpdir, tag + "-req.json")
    resp = os.path.join(tmpdir, tag + "-resp.json")
    json.dump({"requests": requests}, open(req, "w"))
    p = subprocess.run([PLAIN, "-m", "vf.replay", req, resp], env=env_for(VF_TWIN="0", **extra_env), cwd=ROOT,
                       capture_output=True, text=True, timeout=3600)
    if not os.path.exists(resp):
        raise RuntimeError("replay process failed: rc=%s\n%s\n%s" % (p.returncode, p.stdout[-2000:], p.stderr[-3000:]))
    return json.load(open(resp))["responses"]


def pre_lines(fn):
    return [m.group(1).strip() for m in re.finditer(r"^\s*pre:\s*(.*)$", fn.__doc__ or "", re.M)]


def sha_sources(prop):
    out = {}
    for f in prop.get("anchors", {}).get("files", []):
        p = os.path.join(REPO, f)
        if os.path.exists(p):
            out[f] = hashlib.sha256(open(p, "rb").read()).hexdigest()[:16]
    return out


def load_property(pid):
    for line in open(os.path.join(ROOT, "properties.jsonl")):
        p = json.loads(line)
        if p["id"] == pid:
            return p
    raise SystemExit("unknown property %s" % pid)


def load_known(pid):
    path = os.path.join(ROOT, "known_findings.json")
    if not os.path.exists(path):
        return []
    return [k for k in json.load(open(path))["findings"] if k["property"] == pid]


def do_replay_file(path):
    data = json.load(open(path))
    with tempfile.TemporaryDirectory(prefix="vfreplay", dir="/var/tmp") as td:
        r = plain_replay([dict(module=data["module"], condition=data["condition"], args=data["args"], check_pre=True)], td, VF_TIER=data.get("tier", "thorough"))[0]
    print(json.dumps(r, indent=1))
    if r.get("ok"):
        print("REPLAY property=%s condition=%s: holds on this input" % (data.get("property"), data["condition"]))
        return 0
    print("REPLAY property=%s condition=%s: VIOLATED on this input" % (data.get("property"), data["condition"]))
    return 1


def main():
    ap = argparse.ArgumentParser()
    ap.add_argument("prop", nargs="?")
    ap.add_argument("--tier", default=os.environ.get("VERIF_TIER") or "quick", choices=["quick", "thorough"])
    ap.add_argument("--replay")
    ap.add_argument("--only", help="comma separated condition names (debugging; evidence says so)")
    ap.add_argument("--budget-scale", type=float, default=float(os.environ.get("VF_BUDGET_SCALE", "1")))
    a = ap.parse_args()
    if a.replay:
        sys.exit(do_replay_file(a.replay))
    pid = a.prop.upper()
    tier = a.tier
    seed = int(os.environ.get("VERIF_SEED", "0") or 0)
    prop = load_property(pid)
    module = "harness.%s" % pid.lower()
    t_start = time.time()
    sys.path.insert(0, os.path.join(REPO, "src"))
    harness_errors, violations, known_lines, inconclusive = [], [], [], []
    evid_conditions = []
    try:
        mod = importlib.import_module(module)
    except Exception as e:
        print("HARNESS-ERROR cannot import %s: %r" % (module, e))
        import traceback
        traceback.print_exc()
        sys.exit(3)
    conds = [c for c in mod.CONDITIONS if tier in c.tiers]
    if a.only:
        conds = [c for c in conds if c.name in a.only.split(",")]
    known = load_known(pid)
    replay_dir = os.path.join(ROOT, "evidence", "replays", pid)
    os.makedirs(replay_dir, exist_ok=True)
    with tempfile.TemporaryDirectory(prefix="vf-%s-" % pid, dir="/var/tmp") as td:
        # ---- 0. self check of oracles / translators on the repository's own inputs (plain CPython)
        selfcheck = None
        if hasattr(mod, "SELFCHECK"):
            p = subprocess.run([PLAIN, "-c", "import json,%s as m; print('SELFCHECK-JSON'+json.dumps(m.SELFCHECK()))" % module],
                               env=env_for(VF_TWIN="0", VF_TIER=tier), cwd=ROOT, capture_output=True, text=True, timeout=1800)
            line = [l for l in p.stdout.splitlines() if l.startswith("SELFCHECK-JSON")]
            if p.returncode != 0 or not line:
                harness_errors.append("selfcheck crashed: %s" % (p.stderr[-1500:],))
            else:
                selfcheck = json.loads(line[0][len("SELFCHECK-JSON"):])
                if selfcheck.get("problems"):
                    harness_errors.append("oracle self-check disagreements: %s" % selfcheck["problems"][:5])
        # ---- 1. dry run of every witness (function coverage, witness must satisfy the property)
        dry = [dict(module=module, condition=c.name, args=c.witness, profile=True, check_pre=True)
               for c in conds if c.witness is not None and c.kind != "concrete"]
        dry_resp = {}
        if dry:
            for r in plain_replay(dry, td, "dry", VF_TIER=tier):
                dry_resp[r["condition"]] = r
        # ---- 2. the solver runs
        jobs = []
        for c in conds:
            if c.kind == "concrete":
                continue
            budget = (c.thorough if tier == "thorough" else c.quick) * a.budget_scale
            n = c.shards_thorough if tier == "thorough" else c.shards_quick
            if c.kind != "crosshair":
                n = 1
            for s in range(n):
                jobs.append((c, s if n > 1 else -1, n, False, budget))
            if c.twin and c.kind == "crosshair":
                jobs.append((c, -1, 1, True, min(budget, 60.0)))
        jobs.sort(key=lambda j: -j[4])
        results = {}
        with cf.ThreadPoolExecutor(max_workers=NPROC) as ex:
            futs = {ex.submit(run_worker, module, c, tier, s, n, tw, b, td): (c, s, tw) for (c, s, n, tw, b) in jobs}
            for f in cf.as_completed(futs):
                c, s, tw = futs[f]
                results.setdefault(c.name, []).append(f.result())
        # ---- 3. concrete named cases (reported separately, not a solver result)
        named = []
        for c in conds:
            if c.kind == "concrete":
                reqs = [dict(module=module, condition=c.name, args=x) for x in c.cases()]
                for r in plain_replay(reqs, td, "named-" + c.name, VF_TIER=tier):
                    named.append(r)
        # ---- 4. replay counterexamples, classify
        n_replay = 0
        for c in conds:
            if c.kind == "concrete":
                continue
            rs = results.get(c.name, [])
            mains = [r for r in rs if not r.get("twin")]
            twins = [r for r in rs if r.get("twin")]
            entry = {
                "condition": c.name, "engine": "CrossHair 0.0.110 / z3" if c.kind == "crosshair" else "z3 (direct queries)",
                "bound": (c.bound_thorough or c.bound) if tier == "thorough" else c.bound,
                "pre": pre_lines(c.fn), "symbolic_variables": c.symbolic, "assumptions_and_stubs": c.assumptions,
                "shards": [], "functions_executed_on_witness": (dry_resp.get(c.name) or {}).get("functions"),
                "witness": c.witness,
            }
            w = dry_resp.get(c.name)
            if w is not None and (not w.get("ok") or w.get("pre_ok") is False):
                # the default witness itself fails: either it is a listed finding or the harness is wrong
                harness_errors.append("witness of %s does not satisfy the harness: %s" % (c.name, json.dumps(w)[:600]))
            verdicts = []
            for r in sorted(mains, key=lambda r: r.get("shard", -1)):
                verdicts.append(r.get("verdict"))
                entry["shards"].append({k: r.get(k) for k in (
                    "shard", "nshards", "verdict", "paths", "confirmed_paths", "reached_paths", "exhausted", "path_stats",
                    "sampled_dimensions", "z3", "cpu_s", "wall_s", "budget_cpu_s", "detail", "counterexample", "queries",
                    "solver_s", "second_opinion", "smt_sizes") if r.get(k) is not None})
                if r.get("verdict") == "error":
                    harness_errors.append("%s shard %s: %s\n%s" % (c.name, r.get("shard"), r.get("detail"), (r.get("traceback") or r.get("log_tail") or "")[-1500:]))
                elif r.get("verdict") == "pre_unsat":
                    if len(mains) > 1 and any((x.get("reached_paths") or 0) > 0 for x in mains):
                        verdicts[-1] = "confirmed"      # an empty shard of a sharded condition: nothing to decide there
                        entry["shards"][-1]["verdict"] = "empty-shard"
                    else:
                        harness_errors.append("%s shard %s: unable to meet precondition (vacuous)" % (c.name, r.get("shard")))
                elif r.get("verdict") == "refuted":
                    cexargs = r.get("counterexample")
                    if cexargs is None or "_unserialisable" in cexargs:
                        harness_errors.append("%s: counterexample could not be serialised: %s" % (c.name, r.get("messages")))
                        continue
                    n_replay += 1
                    rp = plain_replay([dict(module=module, condition=c.name, args=cexargs, check_pre=True)], td, "cex%d" % n_replay, VF_TIER=tier)[0]
                    path = os.path.join(replay_dir, "%s-%s-%d.json" % (c.name, tier, n_replay))
                    json.dump({"property": pid, "module": module, "condition": c.name, "args": cexargs, "tier": tier,
                               "engine_messages": r.get("messages"), "plain_replay": rp}, open(path, "w"), indent=1)
                    if rp.get("ok") or rp.get("harness_error") or rp.get("pre_ok") is False:
                        harness_errors.append("%s: counterexample does not reproduce on plain CPython (engine/model artefact): %s" % (c.name, path))
                        entry.setdefault("non_reproducing", []).append(cexargs)
                    else:
                        violations.append((c.name, path, cexargs, rp.get("exception")))
                        entry.setdefault("violations", []).append({"args": cexargs, "replay": path, "exception": rp.get("exception")})
                elif r.get("verdict") == "unknown":
                    inconclusive.append("%s%s" % (c.name, "" if r.get("shard", -1) < 0 else "[%d]" % r["shard"]))
            # vacuity: twin must be refuted, or the main run itself counted reached paths
            reached = sum((r.get("reached_paths") or 0) for r in mains)
            tv = [t.get("verdict") for t in twins]
            entry["twin_verdict"] = tv[0] if tv else None
            entry["reached_paths_total"] = reached
            if c.kind == "crosshair" and c.twin:
                if not tv or tv[0] != "refuted":
                    if tv and tv[0] == "error":
                        harness_errors.append("%s twin: %s" % (c.name, twins[0].get("detail")))
                    elif reached == 0:
                        harness_errors.append("%s: vacuous - reachability twin was not refuted (%s) and no path reached the asserted region" % (c.name, tv))
            entry["verdict"] = ("violated" if entry.get("violations") else
                                "error" if "error" in verdicts or "pre_unsat" in verdicts else
                                "inconclusive" if "unknown" in verdicts else
                                "decided-within-bound" if verdicts and all(v == "confirmed" for v in verdicts) else "error")
            evid_conditions.append(entry)
        # ---- 5. known findings: replay the listed witnesses (no exclusion applies on replay)
        kreqs = [dict(module=k.get("module", module), condition=k["condition"], args=k["args"]) for k in known]
        # 'known' witnesses run with every exclusion predicate switched off (they must show the defect itself);
        # 'fixed' witnesses are plain regression cases of the normal check (exclusions of OTHER findings stay on)
        kres = [None] * len(known)
        # (recorded witnesses are replayed under the thorough tier's preconditions, which contain the quick tier's)
        for status, env in (("known", {"VF_NO_EXCLUSIONS": "1", "VF_TIER": "thorough"}), ("fixed", {"VF_TIER": "thorough"})):
            idx = [i for i, k in enumerate(known) if k["status"] == status]
            if idx:
                rs = plain_replay([kreqs[i] for i in idx], td, "known-" + status, **env)
                for i, r in zip(idx, rs):
                    kres[i] = r
        known_out = []
        for k, r in zip(known, kres):
            still = not r.get("ok")
            known_out.append({"id": k["id"], "status": k["status"], "still_fails": still, "what": k["what"], "args": k["args"],
                              "exception": r.get("exception")})
            if r.get("harness_error"):
                harness_errors.append("known finding %s cannot be replayed: %s" % (k["id"], r.get("exception")))
            elif k["status"] == "known" and still:
                known_lines.append("KNOWN-FINDING: property=%s %s [%s]" % (pid, k["what"], k["id"]))
            elif k["status"] == "known":
                # the listed defect no longer shows on its witness: either the code was repaired, or the witness went stale
                # (e.g. a generator table was re-ordered). Said aloud so that a stale entry cannot silently stop being reported.
                known_lines.append("NOTE: property=%s known finding [%s] does not reproduce on its recorded witness any more" % (pid, k["id"]))
            elif k["status"] == "fixed" and still:
                path = os.path.join(replay_dir, "regressed-%s.json" % k["id"])
                json.dump({"property": pid, "module": k.get("module", module), "condition": k["condition"], "args": k["args"],
                           "note": "witness of a defect recorded as fixed fails again"}, open(path, "w"), indent=1)
                violations.append((k["condition"], path, k["args"], r.get("exception")))
        # named concrete cases
        for r in named:
            if not r.get("ok"):
                kid = next((k for k in known if k["condition"] == r["condition"] and k["args"] == r["args"]), None)
                if kid is None:
                    path = os.path.join(replay_dir, "named-%s-%d.json" % (r["condition"], len(violations)))
                    json.dump({"property": pid, "module": module, "condition": r["condition"], "args": r["args"]}, open(path, "w"), indent=1)
                    violations.append((r["condition"], path, r["args"], r.get("exception")))

    # ---- 6. evidence
    all_shards = [s for e in evid_conditions for s in e["shards"]]
    paths = sum((s.get("paths") or 0) for s in all_shards)
    confirmed = sum((s.get("confirmed_paths") or 0) for s in all_shards)
    reached_total = sum(e.get("reached_paths_total") or 0 for e in evid_conditions)
    zq = sum(((s.get("z3") or {}).get("queries") or 0) + (s.get("queries") or 0) for s in all_shards)
    zs = sum(((s.get("z3") or {}).get("solver_s") or 0) + (s.get("solver_s") or 0) for s in all_shards)
    samples = []
    for e in evid_conditions:
        if e.get("witness") is not None:
            samples.append({"condition": e["condition"], "kind": "default witness (dry run on plain CPython)", "args": e["witness"]})
        for v in e.get("violations", []):
            samples.append({"condition": e["condition"], "kind": "counterexample", "args": v["args"]})
    for k in known_out:
        samples.append({"kind": "known-finding witness replayed", "id": k["id"], "args": k["args"], "still_fails": k["still_fails"]})
    for r in named:
        samples.append({"kind": "named concrete case (not a solver result)", "condition": r["condition"], "args": r["args"], "ok": r.get("ok")})
    decided = [e["condition"] for e in evid_conditions if e["verdict"] == "decided-within-bound"]
    evidence = {
        "property_id": pid, "tier": tier, "seed": seed, "level": "other",
        "coverage": {
            "explanation": "Bounded symbolic execution of the real py_gql functions (CrossHair over z3; direct z3 regex queries "
                           "for regular-expression kernels). Per condition the solver decides every path class inside the stated "
                           "bound: 'decided-within-bound' = path tree exhausted and every path's post-condition valid; "
                           "'inconclusive' = CPU budget ended first (confirmed path count is given, nothing is claimed for the rest).",
            "evaluations": max(paths + sum(1 for s in all_shards if s.get("queries")), 1),
            "distinct_nontrivial": reached_total + sum(1 for s in all_shards if s.get("queries")),
            "rule": "one evaluation = one symbolic path (a disjoint class of inputs described by a z3 formula) executed through the real "
                    "code, or one z3 regex-inclusion query; non-trivial = the path reached the region the property is about "
                    "(harness 'reached' flag, e.g. the real parser accepted / an error was produced / >=2 deferred tasks ran); "
                    "paths are distinct by construction (leaves of the path tree are disjoint).",
            "samples": samples[:60],
            "exhaustive": bool(evid_conditions) and all(e["verdict"] == "decided-within-bound" for e in evid_conditions),
            "paths_decided": confirmed, "paths_explored": paths, "z3_queries": zq, "z3_solver_seconds": round(zs, 2),
            "conditions_decided_within_bound": decided, "conditions_inconclusive": inconclusive,
            "conditions": evid_conditions, "known_findings": known_out, "selfcheck": selfcheck,
            "named_cases": [{"condition": r["condition"], "args": r["args"], "ok": r.get("ok"), "exception": r.get("exception")} for r in named],
            "source_sha256_16": sha_sources(prop), "only": a.only,
        },
        "assumptions": sorted({x for e in evid_conditions for x in e["assumptions_and_stubs"]} | {
            "CrossHair's models of str/int/list operations are faithful (trusted for 'confirmed', never for a reported violation: those are replayed on plain CPython)",
            "bounds as listed per condition under coverage.conditions[*].pre / bound; nothing is claimed outside them"}),
        "wall_s": round(time.time() - t_start, 2),
        "violations": len(violations),
        "harness_errors": harness_errors,
    }
    # experiments (a scratch worktree through VF_REPO, or a subset of conditions through --only) must not overwrite the
    # evidence of the registered commands, which always run every condition of the tier against /repo itself
    evid_dir = os.path.join(ROOT, "evidence")
    if os.environ.get("VF_EVIDENCE_DIR"):
        evid_dir = os.environ["VF_EVIDENCE_DIR"]
    elif os.path.realpath(REPO) != "/repo" or a.only:
        evid_dir = "/var/tmp/vf-scratch-evidence"
    os.makedirs(evid_dir, exist_ok=True)
    json.dump(evidence, open(os.path.join(evid_dir, "%s.json" % pid), "w"), indent=1)
    # ---- 7. report
    for e in evid_conditions:
        tot = sum((s.get("paths") or 0) for s in e["shards"])
        print("%-28s %-22s paths=%-6d reached=%-6d twin=%s" % (e["condition"], e["verdict"], tot, e.get("reached_paths_total") or 0, e.get("twin_verdict")))
    for r in named:
        if not r.get("ok"):
            print("%-28s named-case FAILS %s" % (r["condition"], json.dumps(r["args"])[:120]))
    if named:
        print("named concrete cases: %d run, %d ok" % (len(named), sum(1 for r in named if r.get("ok"))))
    for l in known_lines:
        print(l)
    for x in inconclusive:
        print("INCONCLUSIVE condition=%s (budget ended before the bound was exhausted)" % x)
    for h in harness_errors:
        print("HARNESS-ERROR %s" % h)
    for (cn, path, args, exc) in violations:
        print("VIOLATION property=%s replay=%s" % (pid, path))
        print("  condition=%s args=%s exception=%s" % (cn, json.dumps(args)[:300], exc))
    print("%s tier=%s wall=%.0fs paths=%d z3_queries=%d" % (pid, tier, time.time() - t_start, paths, zq))
    if violations:
        sys.exit(1)
    if harness_errors:
        sys.exit(3)
    sys.exit(0)


if __name__ == "__main__":
    main()
