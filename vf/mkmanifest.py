"""Regenerate /verif/MANIFEST.json from the table below (python3 vf/mkmanifest.py)."""
import json
import os

ROOT = os.path.dirname(os.path.dirname(os.path.abspath(__file__)))

CLAIMED = {
    # id: (technique, level text, level note)
}

NOT_BUILT = "check not built yet in this round (planned in DESIGN.md section 4); no claim is made"


def load_claims():
    import importlib.util
    spec = importlib.util.spec_from_file_location("claims", os.path.join(ROOT, "vf", "claims.py"))
    m = importlib.util.module_from_spec(spec)
    spec.loader.exec_module(m)
    return m.CLAIMS, getattr(m, "NOT_APPLICABLE", {})


def main():
    claims, na = load_claims()
    props = [json.loads(l) for l in open(os.path.join(ROOT, "properties.jsonl"))]
    checks, not_app = [], []
    for p in props:
        pid = p["id"]
        if pid in claims:
            c = claims[pid]
            checks.append({
                "property_id": pid,
                "quick_cmd": "bin/check %s --tier quick" % pid,
                "thorough_cmd": "bin/check %s --tier thorough" % pid,
                "evidence_file": "evidence/%s.json" % pid,
                "replay_cmd_template": "bin/check --replay {path}",
                "engine": c.get("engine", "crosshair-z3"),
                "level_claimed": {"category": "other", "text": c["text"], "design_ref": "DESIGN.md section 4, %s" % pid},
                "level_note": c["note"],
                "technique": c["technique"],
            })
        else:
            not_app.append({"property_id": pid, "reason": na.get(pid, NOT_BUILT)})
    manifest = {
        "version": 1,
        "setup_cmd": "/venv/bin/python vf/bootstrap.py",
        "hooks": {
            "guard": "PY_GQL_VERIF",
            "enable": "no source hooks exist: stubs (thread-pool executor, event loop clock, resolvers, instrumentation recorders) are installed by the harnesses at run time on the live objects; checks import py_gql from /repo/src as it is",
            "baseline_off_cmd": "cd /repo && /venv/bin/python -m pytest -ra -q -p no:cacheprovider --timeout=900 --continue-on-collection-errors",
            "source_commits": [],
            "add_only": True,
        },
        "engines": [
            {"name": "crosshair-z3", "path": "vf/worker.py", "serves_properties": sorted(claims),
             "kind_free_text": "symbolic execution of the real py_gql byte-code (crosshair-tool 0.0.110) with z3 5.1.0 deciding every branch; one process per condition/shard; counterexamples replayed on plain CPython"},
            {"name": "z3-regex", "path": "vf/smt/regex2z3.py", "serves_properties": [p for p in sorted(claims) if claims[p].get("regex")],
             "kind_free_text": "live compiled regex pattern -> z3 sequence/regex theory with continuation semantics; language inclusion both ways, unbounded length"},
        ],
        "checks": checks,
        "not_applicable": not_app,
        "notes": "Exit codes: 0 held on everything explored (INCONCLUSIVE conditions are named), 1 VIOLATION, 3 harness error. known_findings.json lists genuine defects (known / fixed).",
    }
    json.dump(manifest, open(os.path.join(ROOT, "MANIFEST.json"), "w"), indent=1)
    print("MANIFEST.json: %d checks, %d not_applicable" % (len(checks), len(not_app)))


if __name__ == "__main__":
    main()
