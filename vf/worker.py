"""One CrossHair condition (or one Engine-B query set) per process.
usage: python -m vf.worker <module> <cond-name> <tier> <out.json>   (env: VF_SHARD, VF_NSHARDS, VF_TWIN)"""
import importlib
import json
import os
import sys
import time
import traceback


def jsonable(v):
    if isinstance(v, (bool, int, str)) or v is None:
        return v
    if isinstance(v, float):
        return v
    if isinstance(v, (list, tuple)):
        return [jsonable(x) for x in v]
    if isinstance(v, dict):
        return {str(k): jsonable(x) for k, x in v.items()}
    return repr(v)


def run_crosshair(cond, budget, out):
    import z3
    import vf.chfix  # noqa: F401
    import crosshair.core as core
    import crosshair.statespace as statespace
    from crosshair.core_and_libs import analyze_function, run_checkables, AnalysisKind
    from crosshair.options import AnalysisOptionSet
    from crosshair.core import MessageType
    import vf.spec as spec

    # --- instrumentation of the engine -------------------------------------------------
    zstat = {"queries": 0, "seconds": 0.0, "unknown": 0}
    orig_check = z3.Solver.check

    def counted_check(self, *a, **kw):
        t = time.perf_counter()
        try:
            r = orig_check(self, *a, **kw)
            if str(r) == "unknown":
                zstat["unknown"] += 1
            return r
        finally:
            zstat["queries"] += 1
            zstat["seconds"] += time.perf_counter() - t

    z3.Solver.check = counted_check

    cex = []
    orig_mk = core.make_counterexample_message

    def mk(conditions, args, return_val=None):
        from crosshair.tracers import NoTracing
        reprer = core.context_statespace().extra(core.LazyCreationRepr)
        with NoTracing():
            real = reprer.deep_realize(args)
        try:
            cex.append({k: jsonable(v) for k, v in real.arguments.items()})
        except Exception:
            cex.append({"_unserialisable": repr(real)})
        return orig_mk(conditions, args, return_val)

    core.make_counterexample_message = mk

    roots = []
    orig_root = statespace.RootNode

    class Root(orig_root):
        def __init__(self):
            super().__init__()
            roots.append(self)

    statespace.RootNode = Root
    core.RootNode = Root

    analyses = []
    orig_act = core.analyze_calltree

    def act(options, conditions):
        r = orig_act(options, conditions)
        analyses.append((r, options))
        return r

    core.analyze_calltree = act

    opts = AnalysisOptionSet(
        analysis_kind=[AnalysisKind.PEP316],
        per_condition_timeout=float(budget),
        per_path_timeout=float(cond.per_path),
        max_uninteresting_iterations=sys.maxsize,
        max_iterations=sys.maxsize,
        report_all=True,
    )
    t0, c0 = time.time(), time.process_time()
    checkables = analyze_function(cond.fn, opts)
    if not checkables:
        out.update(verdict="error", detail="no conditions parsed from docstring")
        return
    messages = run_checkables(checkables)
    out["wall_s"] = round(time.time() - t0, 2)
    out["cpu_s"] = round(time.process_time() - c0, 2)
    out["messages"] = [{"state": m.state.name, "message": m.message[:2000], "line": m.line,
                        "traceback": (m.traceback or "")[-3000:]} for m in messages]
    stats = {}
    exhausted = False
    if roots:
        try:
            stats = {str(getattr(k, "name", k)): v for k, v in roots[-1].stats().items()}
            exhausted = bool(roots[-1].child.is_exhausted())
        except Exception as e:  # pragma: no cover
            stats = {"error": repr(e)}
    out["path_stats"] = stats
    out["exhausted"] = exhausted
    if analyses:
        r, o = analyses[-1]
        out["confirmed_paths"] = r.num_confirmed_paths
        out["paths"] = int(o.stats.get("num_paths", 0)) if o.stats else 0
    if not out.get("paths"):
        out["paths"] = sum(v for k, v in stats.items() if k in ("CONFIRMED", "REFUTED", "UNKNOWN")) or len(spec.REACHED)
    out["z3"] = {"queries": zstat["queries"], "solver_s": round(zstat["seconds"], 3), "unknown": zstat["unknown"]}
    out["reached_paths"] = sum(1 for r in spec.REACHED if r)
    out["executed_bodies"] = len(spec.REACHED)
    out["sampled_dimensions"] = sorted(k for k in stats if "realize" in k.lower())
    states = {m.state for m in messages}
    if MessageType.CONFIRMED in states and len(states) == 1:
        out["verdict"] = "confirmed"
    elif states & {MessageType.POST_FAIL, MessageType.EXEC_ERR, MessageType.POST_ERR}:
        out["verdict"] = "refuted"
        out["counterexample"] = cex[-1] if cex else None
    elif MessageType.PRE_UNSAT in states:
        out["verdict"] = "pre_unsat"
    elif MessageType.CANNOT_CONFIRM in states:
        out["verdict"] = "unknown"
    else:
        out["verdict"] = "error"
        out["detail"] = "unexpected message states %s" % sorted(s.name for s in states)


def main():
    module, name, tier, outpath = sys.argv[1:5]
    out = {"module": module, "condition": name, "tier": tier,
           "shard": int(os.environ.get("VF_SHARD", "-1")), "nshards": int(os.environ.get("VF_NSHARDS", "1")),
           "twin": os.environ.get("VF_TWIN", "0") == "1", "seed": int(os.environ.get("VERIF_SEED", "0") or 0)}
    try:
        mod = importlib.import_module(module)
        cond = next(c for c in mod.CONDITIONS if c.name == name)
        budget = float(os.environ.get("VF_BUDGET") or (cond.thorough if tier == "thorough" else cond.quick))
        out["budget_cpu_s"] = budget
        if cond.kind == "crosshair":
            run_crosshair(cond, budget, out)
        elif cond.kind == "z3":
            t0 = time.time()
            out.update(cond.solve(tier))
            out["wall_s"] = round(time.time() - t0, 2)
        else:
            out.update(verdict="error", detail="worker cannot run kind %s" % cond.kind)
    except BaseException as e:  # noqa
        out["verdict"] = "error"
        out["detail"] = "%s: %s" % (type(e).__name__, e)
        out["traceback"] = traceback.format_exc()[-6000:]
    with open(outpath, "w") as f:
        json.dump(out, f, indent=1)


if __name__ == "__main__":
    main()
