"""Plain-CPython side: re-execute a harness body on concrete arguments (no CrossHair loaded).
usage: python -m vf.replay <request.json> <response.json>
request: {module, condition, args, profile: bool, check_pre: bool}  (or a replay file written by the runner)"""
import importlib
import json
import re
import sys
import traceback


def eval_pre(fn, args):
    doc = fn.__doc__ or ""
    res = []
    for line in doc.splitlines():
        m = re.match(r"\s*pre:\s*(.*)$", line)
        if m:
            expr = m.group(1).split("  #")[0].strip()
            try:
                res.append((expr, bool(eval(expr, fn.__globals__, dict(args)))))
            except Exception as e:
                res.append((expr, "exception %r" % e))
    return res


def run(req):
    mod = importlib.import_module(req["module"])
    cond = next(c for c in mod.CONDITIONS if c.name == req["condition"])
    args = req["args"]
    resp = {"module": req["module"], "condition": req["condition"], "args": args}
    if req.get("check_pre", False):
        resp["pre"] = eval_pre(cond.fn, args)
        resp["pre_ok"] = all(v is True for _, v in resp["pre"])
    seen = set()
    if req.get("profile"):
        def prof(frame, event, arg):
            if event == "call":
                f = frame.f_code.co_filename
                if "/py_gql/" in f:
                    seen.add(f.split("/py_gql/", 1)[1][:-3].replace("/", ".") + "." + frame.f_code.co_qualname)
        sys.setprofile(prof)
    try:
        r = cond.fn(**args)
        resp["returned"] = bool(r)
        resp["ok"] = bool(r)
        resp["exception"] = None
    except BaseException as e:  # noqa
        resp["ok"] = False
        resp["returned"] = None
        resp["exception"] = "%s: %s" % (type(e).__name__, str(e)[:500])
        resp["traceback"] = traceback.format_exc()[-3000:]
    finally:
        sys.setprofile(None)
    if req.get("profile"):
        resp["functions"] = sorted(seen)
    try:
        import vf.spec as spec
        resp["reached"] = bool(spec.REACHED and spec.REACHED[-1])
    except Exception:
        pass
    return resp


def main():
    req = json.load(open(sys.argv[1]))
    if "requests" in req:
        out = {"responses": []}
        for r in req["requests"]:
            try:
                out["responses"].append(run(r))
            except BaseException as e:  # noqa
                out["responses"].append({"ok": False, "exception": "replay-internal %r" % e, "harness_error": True,
                                         "traceback": traceback.format_exc()[-3000:],
                                         "condition": r.get("condition"), "args": r.get("args")})
    else:
        out = run(req)
    if len(sys.argv) > 2:
        json.dump(out, open(sys.argv[2], "w"), indent=1)
    else:
        json.dump(out, sys.stdout, indent=1)
        print()
        if "ok" in out:
            print("REPLAY", "property holds on this input" if out["ok"] else "property VIOLATED on this input")
            sys.exit(0 if out["ok"] else 1)


if __name__ == "__main__":
    main()
