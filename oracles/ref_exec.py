"""Reference executor written from the specification, section 6 (Execution): CollectFields, ExecuteSelectionSet,
ExecuteField, CoerceArgumentValues (via the reference coercion), CompleteValue, ResolveAbstractType - with the one
documented deviation of the library that property C04 itself states: a null in a non-null position (or a failing
resolver) yields null at exactly that position plus one error; it does not propagate to the parent.

It works on the parsed AST (py_gql.lang.ast nodes are only used as a syntax tree) and on a plain-dict schema model:

  model = {"Query": {"kind": "object", "fields": {"me": {"type": "User", "args": {"x": {"type": "Int", "default": 7}}}}, "interfaces": [...]},
           "Pet": {"kind": "union", "members": [...]}, "Role": {"kind": "enum", "values": {"ADMIN": 1}}, ...}

Resolution is the default one: mapping lookup by field name; `world.fail` is a set of (type name, field name) whose
resolver raises the library's resolver error; fields listed in `world.fns` compute their value from (parent, args).
"""


class FieldError(Exception):
    pass


class World:
    def __init__(self, fail=(), fns=None):
        self.fail = set(fail)
        self.fns = fns or {}


BUILTIN_SCALARS = ("Int", "Float", "String", "Boolean", "ID")


def parse_type(t):
    """'[Int!]!' -> ('nonnull', ('list', ('nonnull', ('named', 'Int'))))"""
    t = t.strip()
    if t.endswith("!"):
        return ("nonnull", parse_type(t[:-1]))
    if t.startswith("["):
        return ("list", parse_type(t[1:-1]))
    return ("named", t)


def type_from_ast(node):
    k = type(node).__name__
    if k == "NonNullType":
        return ("nonnull", type_from_ast(node.type))
    if k == "ListType":
        return ("list", type_from_ast(node.type))
    return ("named", node.name.value)


class RequestError(Exception):
    """spec 6.1.2 CoerceVariableValues: the request fails before execution (no data entry)"""


class Executor:
    def __init__(self, model, document, variables, world, root_types=None):
        self.model, self.doc, self.vars, self.world = model, document, variables, world
        self.errors = []
        self.fragments = {d.name.value: d for d in document.definitions if type(d).__name__ == "FragmentDefinition"}
        self.root_types = root_types or {"query": "Query", "mutation": "Mutation", "subscription": "Subscription"}

    # ---- 6.1 / 6.2
    def execute(self, operation_name=None, root=None):
        ops = [d for d in self.doc.definitions if type(d).__name__ == "OperationDefinition"]
        if operation_name is None:
            assert len(ops) == 1
            op = ops[0]
        else:
            op = [o for o in ops if o.name and o.name.value == operation_name][0]
        self.coerced = self.coerce_variables(op)
        root_type = self.root_types[op.operation]
        return self.execute_selection_set(op.selection_set.selections, root_type, root, [])

    def coerce_variables(self, op):
        out = {}
        for vd in op.variable_definitions:
            name = vd.variable.name.value
            t = type_from_ast(vd.type)
            if name in self.vars:
                out[name] = self.coerce_input(t, self.vars[name])
            elif vd.default_value is not None:
                out[name] = self.literal(vd.default_value, t)
            # 6.1.2 step 3.g / 3.h: a non-null variable without a value, or with the value null, is a request error
            if t[0] == "nonnull" and out.get(name) is None:
                raise RequestError("variable $%s of non-null type has no value" % name)
        return out

    # ---- 6.3.2 CollectFields
    def collect(self, object_type, selections, visited=None, grouped=None):
        visited = visited if visited is not None else set()
        grouped = grouped if grouped is not None else {}
        for sel in selections:
            if self.skipped(sel):
                continue
            k = type(sel).__name__
            if k == "Field":
                key = sel.alias.value if sel.alias else sel.name.value
                grouped.setdefault(key, []).append(sel)
            elif k == "FragmentSpread":
                name = sel.name.value
                if name in visited:
                    continue
                visited.add(name)
                frag = self.fragments.get(name)
                if frag is None or not self.applies(object_type, frag.type_condition.name.value):
                    continue
                self.collect(object_type, frag.selection_set.selections, visited, grouped)
            else:
                if sel.type_condition is not None and not self.applies(object_type, sel.type_condition.name.value):
                    continue
                self.collect(object_type, sel.selection_set.selections, visited, grouped)
        return grouped

    def skipped(self, sel):
        for d in sel.directives:
            if d.name.value in ("skip", "include"):
                arg = [a for a in d.arguments if a.name.value == "if"][0]
                v = self.literal(arg.value, ("nonnull", ("named", "Boolean")))
                if d.name.value == "skip" and v:
                    return True
                if d.name.value == "include" and not v:
                    return True
        return False

    def applies(self, object_type, cond):
        if cond == object_type:
            return True
        t = self.model.get(cond)
        if not t:
            return False
        if t["kind"] == "interface":
            return cond in self.model[object_type].get("interfaces", [])
        if t["kind"] == "union":
            return object_type in t["members"]
        return False

    # ---- 6.3 ExecuteSelectionSet / 6.4 ExecuteField
    def execute_selection_set(self, selections, object_type, value, path):
        out = {}
        for key, fields in self.collect(object_type, selections).items():
            fname = fields[0].name.value
            if fname == "__typename":
                out[key] = object_type
                continue
            fdef = self.model[object_type]["fields"].get(fname)
            if fdef is None:
                continue
            out[key] = self.execute_field(object_type, value, fdef, fname, fields, path + [key])
        return out

    def execute_field(self, object_type, value, fdef, fname, fields, path):
        node = fields[0]
        try:
            args = self.argument_values(fdef, node)
            resolved = self.resolve(object_type, value, fname, args)
        except FieldError as e:
            self.error(path, node, str(e))
            return None
        return self.complete(parse_type(fdef["type"]), fields, resolved, path)

    def argument_values(self, fdef, node):
        given = {a.name.value: a.value for a in node.arguments}
        out = {}
        for name, adef in fdef.get("args", {}).items():
            t = parse_type(adef["type"])
            pyname = adef.get("python_name", name)
            if name in given:
                v = given[name]
                if type(v).__name__ == "Variable":
                    vn = v.name.value
                    if vn in self.coerced:
                        if self.coerced[vn] is None and t[0] == "nonnull":
                            raise FieldError("null for non-null argument")
                        out[pyname] = self.coerced[vn]
                        continue
                else:
                    out[pyname] = self.literal(v, t)
                    continue
            if "default" in adef:
                out[pyname] = adef["default"]
            elif t[0] == "nonnull":
                raise FieldError("missing required argument")
        return out

    def resolve(self, object_type, value, fname, args):
        if (object_type, fname) in self.world.fail:
            raise FieldError("resolver failed")
        fn = self.world.fns.get((object_type, fname))
        if fn is not None:
            return fn(value, args)
        if isinstance(value, dict):
            return value.get(fname)
        return getattr(value, fname, None)

    # ---- 6.4.3 CompleteValue
    def complete(self, t, fields, result, path):
        if t[0] == "nonnull":
            r = self.complete(t[1], fields, result, path)
            if r is None:
                self.error(path, fields[0], "non-null")
            return r
        if result is None:
            return None
        if t[0] == "list":
            return [self.complete(t[1], fields, item, path + [i]) for i, item in enumerate(result)]
        name = t[1]
        if name in BUILTIN_SCALARS:
            return self.serialize(name, result)
        td = self.model[name]
        if td["kind"] == "scalar":
            return td.get("serialize", str)(result)
        if td["kind"] == "enum":
            for n, internal in td["values"].items():
                if internal == result:
                    return n
            raise AssertionError("world returns an unknown enum value")
        if td["kind"] in ("interface", "union"):
            name = result["__typename__"]
        sub = []
        for f in fields:
            if f.selection_set is not None:
                sub.extend(f.selection_set.selections)
        return self.execute_selection_set(sub, name, result, path)

    def serialize(self, name, v):
        if name == "Int":
            return int(v)
        if name == "Float":
            return float(v)
        if name == "String":
            return str(v)
        if name == "Boolean":
            return bool(v)
        return str(v)

    def error(self, path, node, msg):
        self.errors.append((tuple(path), node.loc[0] if node.loc else None))

    # ---- input coercion of literals / variables (spec 3.x input coercion)
    def literal(self, node, t):
        k = type(node).__name__
        if k == "Variable":
            return self.coerced.get(node.name.value) if hasattr(self, "coerced") else self.vars.get(node.name.value)
        if t[0] == "nonnull":
            return self.literal(node, t[1])
        if k == "NullValue":
            return None
        if t[0] == "list":
            if k == "ListValue":
                return [self.literal(v, t[1]) for v in node.values]
            return [self.literal(node, t[1])]
        name = t[1]
        td = self.model.get(name, {"kind": "scalar"})
        # literals that cannot be coerced to the expected type are an argument coercion failure = a field error (6.4.1)
        if k == "ListValue":
            raise FieldError("list literal for a non-list type")
        if k == "ObjectValue":
            if td["kind"] != "input":
                raise FieldError("object literal for a non input-object type")
            return self.input_object(name, {f.name.value: f.value for f in node.fields}, literal=True)
        if td["kind"] == "input":
            raise FieldError("non-object literal for an input object type")
        if td["kind"] == "enum":
            if k != "EnumValue" or node.value not in td["values"]:
                raise FieldError("not a value of the enum")
            return td["values"][node.value]
        if k == "EnumValue":
            raise FieldError("enum literal for a non-enum type")
        if name == "Int":
            if k != "IntValue" or not (-2147483648 <= int(node.value) <= 2147483647):
                raise FieldError("not an Int")
            return int(node.value)
        if name == "Float":
            if k not in ("IntValue", "FloatValue"):
                raise FieldError("not a Float")
            return float(node.value)
        if name == "String":
            if k != "StringValue":
                raise FieldError("not a String")
            return node.value
        if name == "Boolean":
            if k != "BooleanValue":
                raise FieldError("not a Boolean")
            return node.value
        if name == "ID":
            if k not in ("StringValue", "IntValue"):
                raise FieldError("not an ID")
            return str(node.value)
        return node.value            # custom scalar: identity

    def coerce_input(self, t, v):
        if t[0] == "nonnull":
            return self.coerce_input(t[1], v)
        if v is None:
            return None
        if t[0] == "list":
            if isinstance(v, list):
                return [self.coerce_input(t[1], x) for x in v]
            return [self.coerce_input(t[1], v)]
        name = t[1]
        if name in BUILTIN_SCALARS:
            return str(v) if name == "ID" else v
        td = self.model[name]
        if td["kind"] == "enum":
            return td["values"][v]
        if td["kind"] == "input":
            return self.input_object(name, v, literal=False)
        return v

    def input_object(self, name, given, literal):
        out = {}
        for fname, fdef in self.model[name]["fields"].items():
            t = parse_type(fdef["type"])
            pyname = fdef.get("python_name", fname)
            if fname in given:
                out[pyname] = self.literal(given[fname], t) if literal else self.coerce_input(t, given[fname])
            elif "default" in fdef:
                out[pyname] = fdef["default"]
        return out


def run(model, document, variables=None, world=None, operation_name=None, root=None):
    """-> (ordered data dict, sorted list of (path tuple, location of the field's first node))"""
    ex = Executor(model, document, variables or {}, world or World())
    data = ex.execute(operation_name, root)
    return data, sorted(ex.errors, key=repr)


# ---------------------------------------------------------------------------------------------
def reference_depth(document, operation, variables):
    """Nesting depth of an operation as MaxDepthValidationRule's docstring defines it: levels below the root fields
    along the longest selected field path, through inline fragments and fragment spreads at any level (type conditions
    ignored: no schema is consulted), @skip/@include evaluated with `variables`, same-response-key fields merged."""
    frags = {d.name.value: d for d in document.definitions if type(d).__name__ == "FragmentDefinition"}

    def directive_value(node):
        if type(node).__name__ == "Variable":
            return variables.get(node.name.value)
        return node.value

    def skipped(sel):
        for d in sel.directives:
            if d.name.value in ("skip", "include"):
                v = directive_value([a for a in d.arguments if a.name.value == "if"][0].value)
                if (d.name.value == "skip" and v) or (d.name.value == "include" and not v):
                    return True
        return False

    def collect(selections, visited, grouped):
        for sel in selections:
            if skipped(sel):
                continue
            k = type(sel).__name__
            if k == "Field":
                grouped.setdefault(sel.alias.value if sel.alias else sel.name.value, []).append(sel)
            elif k == "FragmentSpread":
                if sel.name.value in visited or sel.name.value not in frags:
                    continue
                visited.add(sel.name.value)
                collect(frags[sel.name.value].selection_set.selections, visited, grouped)
            else:
                collect(sel.selection_set.selections, visited, grouped)
        return grouped

    def longest(selections):
        """number of field levels in the longest path starting in this selection set"""
        best = 0
        for fields in collect(selections, set(), {}).values():
            sub = []
            for f in fields:
                if f.selection_set is not None:
                    sub.extend(f.selection_set.selections)
            best = max(best, 1 + (longest(sub) if sub else 0))
        return best

    return max(longest(operation.selection_set.selections) - 1, 0)
