"""Reference lexer written from the June-2018 GraphQL specification, section 2.1 (Source Text)
and appendix B.1, plus the one documented deviation of the library (CHANGES.md: a number may
not be followed by a NameStart character).  Not derived from py_gql's lexer.

Only character comparisons are used so that it can run on CrossHair's symbolic strings.

tokens(s) -> list of (kind, start, end, value)          kind in KINDS
raises RefSyntaxError(position) for text that has no tokenisation
raises DontCare for the cases the specification text and later clarifications disagree on
  (a number directly followed by a digit or by '.', which June 2018 tokenises as two tokens
  and the reference implementation / later drafts reject).
"""

PUNCT = "!$()[]{}:=@|&"


class RefSyntaxError(Exception):
    def __init__(self, position):
        Exception.__init__(self, position)
        self.position = position


class DontCare(Exception):
    pass


def is_digit(c):
    return "0" <= c <= "9"


def is_letter(c):
    return ("a" <= c <= "z") or ("A" <= c <= "Z")


def is_name_start(c):
    return c == "_" or is_letter(c)


def is_name_continue(c):
    return c == "_" or is_letter(c) or is_digit(c)


def is_source_char(c):
    # SourceCharacter :: /[\u0009\u000A\u000D -￿]/ ; code points above U+FFFF are
    # what a UTF-16 implementation sees as two in-range units, so they are source characters too.
    return c >= " " or c == "\t" or c == "\n" or c == "\r"


def is_hex(c):
    return is_digit(c) or ("a" <= c <= "f") or ("A" <= c <= "F")


def hex_value(c):
    o = ord(c)
    if o <= 57:
        return o - 48
    if o <= 70:
        return o - 55
    return o - 87


ESCAPES = {'"': '"', "\\": "\\", "/": "/", "b": "\b", "f": "\f", "n": "\n", "r": "\r", "t": "\t"}


def escaped_char(c):
    if c == '"':
        return '"'
    if c == "\\":
        return "\\"
    if c == "/":
        return "/"
    if c == "b":
        return "\b"
    if c == "f":
        return "\f"
    if c == "n":
        return "\n"
    if c == "r":
        return "\r"
    if c == "t":
        return "\t"
    return None


def block_string_value(raw):
    """BlockStringValue(rawValue), spec section 2.9.4.  Line terminators are exactly
    LF, CR and CRLF; white space is exactly tab and space."""
    lines = []
    cur = ""
    i, n = 0, len(raw)
    while i < n:
        c = raw[i]
        if c == "\n":
            lines.append(cur)
            cur = ""
        elif c == "\r":
            lines.append(cur)
            cur = ""
            if i + 1 < n and raw[i + 1] == "\n":
                i += 1
        else:
            cur += c
        i += 1
    lines.append(cur)

    def indent_of(line):
        k = 0
        while k < len(line) and (line[k] == " " or line[k] == "\t"):
            k += 1
        return k

    common = None
    for line in lines[1:]:
        ind = indent_of(line)
        if ind < len(line):
            if common is None or ind < common:
                common = ind
    if common is not None:
        lines = [lines[0]] + [line[common:] for line in lines[1:]]
    while lines and indent_of(lines[0]) == len(lines[0]):
        lines = lines[1:]
    while lines and indent_of(lines[-1]) == len(lines[-1]):
        lines = lines[:-1]
    return "\n".join(lines)


def tokens(s, number_lookahead=True):
    out = []
    i, n = 0, len(s)
    while True:
        # Ignored :: UnicodeBOM WhiteSpace LineTerminator Comment Comma
        while i < n:
            c = s[i]
            if c == "﻿" or c == "\t" or c == " " or c == "\n" or c == "\r" or c == ",":
                i += 1
            elif c == "#":
                i += 1
                while i < n and s[i] != "\n" and s[i] != "\r" and is_source_char(s[i]):
                    i += 1
            else:
                break
        if i >= n:
            return out
        c = s[i]
        start = i
        if not is_source_char(c):
            raise RefSyntaxError(i)
        if c in PUNCT:
            out.append(("Punct", start, i + 1, c))
            i += 1
        elif c == ".":
            if i + 2 < n and s[i + 1] == "." and s[i + 2] == ".":
                out.append(("Punct", start, i + 3, "..."))
                i += 3
            else:
                raise RefSyntaxError(i)
        elif is_name_start(c):
            i += 1
            while i < n and is_name_continue(s[i]):
                i += 1
            out.append(("Name", start, i, s[start:i]))
        elif c == "-" or is_digit(c):
            is_float = False
            if c == "-":
                i += 1
            if i >= n or not is_digit(s[i]):
                raise RefSyntaxError(min(i, n))
            if s[i] == "0":
                i += 1
                if i < n and is_digit(s[i]):
                    raise DontCare()          # "00", "01": two tokens in June 2018, rejected later
            else:
                while i < n and is_digit(s[i]):
                    i += 1
            if i < n and s[i] == ".":
                if i + 1 < n and is_digit(s[i + 1]):
                    is_float = True
                    i += 1
                    while i < n and is_digit(s[i]):
                        i += 1
                else:
                    raise DontCare()          # "1." / "1..." : Int then '.'/'...' in June 2018
            if i < n and (s[i] == "e" or s[i] == "E"):
                j = i + 1
                if j < n and (s[j] == "+" or s[j] == "-"):
                    j += 1
                if j < n and is_digit(s[j]):
                    is_float = True
                    i = j
                    while i < n and is_digit(s[i]):
                        i += 1
                else:
                    # "1e" / "1e+": June 2018 would tokenise Int then Name 'e'; with the documented
                    # NameStart restriction the text has no tokenisation at all.
                    raise RefSyntaxError(min(j, n))
            if i < n and s[i] == ".":
                raise DontCare()              # "1.5." / "1e5."
            if number_lookahead and i < n and is_name_start(s[i]):
                raise RefSyntaxError(i)
            out.append(("Float" if is_float else "Int", start, i, s[start:i]))
        elif c == '"':
            if i + 2 < n and s[i + 1] == '"' and s[i + 2] == '"':
                i += 3
                raw = ""
                while True:
                    if i >= n:
                        raise RefSyntaxError(n)
                    if s[i] == '"' and i + 2 < n and s[i + 1] == '"' and s[i + 2] == '"':
                        i += 3
                        break
                    if s[i] == "\\" and i + 3 < n and s[i + 1] == '"' and s[i + 2] == '"' and s[i + 3] == '"':
                        raw += '"""'
                        i += 4
                        continue
                    if not is_source_char(s[i]):
                        raise RefSyntaxError(i)
                    raw += s[i]
                    i += 1
                out.append(("BlockString", start, i, block_string_value(raw)))
            else:
                i += 1
                val = ""
                while True:
                    if i >= n:
                        raise RefSyntaxError(n)
                    ch = s[i]
                    if ch == '"':
                        i += 1
                        break
                    if ch == "\n" or ch == "\r":
                        raise RefSyntaxError(i)
                    if not is_source_char(ch):
                        raise RefSyntaxError(i)
                    if ch == "\\":
                        if i + 1 >= n:
                            raise RefSyntaxError(n)
                        e = s[i + 1]
                        if e == "u":
                            if i + 5 < n + 0 and is_hex(s[i + 2]) and is_hex(s[i + 3]) and is_hex(s[i + 4]) and is_hex(s[i + 5]):
                                code = ((hex_value(s[i + 2]) * 16 + hex_value(s[i + 3])) * 16 + hex_value(s[i + 4])) * 16 + hex_value(s[i + 5])
                                val += chr(code)
                                i += 6
                            else:
                                raise RefSyntaxError(min(i + 2, n))
                        else:
                            d = escaped_char(e)
                            if d is None:
                                raise RefSyntaxError(i + 1)
                            val += d
                            i += 2
                    else:
                        val += ch
                        i += 1
                out.append(("String", start, i, val))
        else:
            raise RefSyntaxError(i)
