"""The June-2018 GraphQL grammar (appendix B.2 Document, B.3 type system) as data, plus an
incremental Earley recogniser over token sequences.  Written from the specification text;
documented library extensions: constant directives on variable definitions (incl. the
VARIABLE_DEFINITION directive location) and optional fragment variables.

Tokens are (kind, value) with kind in Punct | Name | Int | Float | String | BlockString | EOF.

Where June 2018 is ambiguous as a context-free grammar - an optional trailing
`{ ... }` block of a type-system definition followed by an anonymous query `{ ... }` - the
recogniser applies the `[lookahead != {]` restriction that the specification added later to
say what was always meant (the block belongs to the definition).
"""

EXEC_LOCATIONS = ("QUERY", "MUTATION", "SUBSCRIPTION", "FIELD", "FRAGMENT_DEFINITION", "FRAGMENT_SPREAD",
                  "INLINE_FRAGMENT", "VARIABLE_DEFINITION")
TS_LOCATIONS = ("SCHEMA", "SCALAR", "OBJECT", "FIELD_DEFINITION", "ARGUMENT_DEFINITION", "INTERFACE", "UNION",
                "ENUM", "ENUM_VALUE", "INPUT_OBJECT", "INPUT_FIELD_DEFINITION")

GRAMMAR = r"""
Document            := Definition+
ExecutableDefinition:= OperationDefinition | FragmentDefinition
OperationDefinition := SelectionSet | OperationType Name? VariableDefinitions? Directives? SelectionSet
OperationType       := "query" | "mutation" | "subscription"
SelectionSet        := '{' Selection+ '}'
Selection           := Field | FragmentSpread | InlineFragment
Field               := Alias? Name Arguments? Directives? SelectionSet?
Alias               := Name ':'
Arguments           := '(' Argument+ ')'
Argument            := Name ':' Value
ArgumentsC          := '(' ArgumentC+ ')'
ArgumentC           := Name ':' ValueC
FragmentSpread      := '...' FragmentName Directives?
InlineFragment      := '...' TypeCondition? Directives? SelectionSet
FragmentName        := NAME_NOT_ON
TypeCondition       := "on" NamedType
Value               := Variable | INT | FLOAT | STR | BooleanValue | NullValue | EnumValue | ListValue | ObjectValue
ValueC              := INT | FLOAT | STR | BooleanValue | NullValue | EnumValue | ListValueC | ObjectValueC
BooleanValue        := "true" | "false"
NullValue           := "null"
EnumValue           := ENUM_NAME
ListValue           := '[' ']' | '[' Value+ ']'
ListValueC          := '[' ']' | '[' ValueC+ ']'
ObjectValue         := '{' '}' | '{' ObjectField+ '}'
ObjectValueC        := '{' '}' | '{' ObjectFieldC+ '}'
ObjectField         := Name ':' Value
ObjectFieldC        := Name ':' ValueC
VariableDefinitions := '(' VariableDefinition+ ')'
VariableDefinition  := Variable ':' Type DefaultValue? DirectivesC?
Variable            := '$' Name
DefaultValue        := '=' ValueC
Type                := NamedType | ListType | NonNullType
NamedType           := Name
ListType            := '[' Type ']'
NonNullType         := NamedType '!' | ListType '!'
Directives          := Directive+
Directive           := '@' Name Arguments?
DirectivesC         := DirectiveC+
DirectiveC          := '@' Name ArgumentsC?
Name                := NAME

TypeSystemDefinition:= SchemaDefinition | TypeDefinition | DirectiveDefinition
TypeSystemExtension := SchemaExtension | TypeExtension
SchemaDefinition    := "schema" DirectivesC? '{' OperationTypeDefinition+ '}'
SchemaExtension     := "extend" "schema" DirectivesC? '{' OperationTypeDefinition+ '}' | "extend" "schema" DirectivesC NOT_LBRACE
OperationTypeDefinition := OperationType ':' NamedType
Description         := STR
TypeDefinition      := ScalarTypeDefinition | ObjectTypeDefinition | InterfaceTypeDefinition | UnionTypeDefinition | EnumTypeDefinition | InputObjectTypeDefinition
TypeExtension       := ScalarTypeExtension | ObjectTypeExtension | InterfaceTypeExtension | UnionTypeExtension | EnumTypeExtension | InputObjectTypeExtension
ScalarTypeDefinition:= Description? "scalar" Name DirectivesC?
ScalarTypeExtension := "extend" "scalar" Name DirectivesC
ObjectTypeDefinition:= Description? "type" Name ImplementsInterfaces? DirectivesC? FieldsDefinition | Description? "type" Name ImplementsInterfaces? DirectivesC? NOT_LBRACE
ObjectTypeExtension := "extend" "type" Name ImplementsInterfaces? DirectivesC? FieldsDefinition | "extend" "type" Name ImplementsInterfaces? DirectivesC NOT_LBRACE | "extend" "type" Name ImplementsInterfaces NOT_LBRACE
ImplementsInterfaces:= "implements" '&'? NamedType | ImplementsInterfaces '&' NamedType
FieldsDefinition    := '{' FieldDefinition+ '}'
FieldDefinition     := Description? Name ArgumentsDefinition? ':' Type DirectivesC?
ArgumentsDefinition := '(' InputValueDefinition+ ')'
InputValueDefinition:= Description? Name ':' Type DefaultValue? DirectivesC?
InterfaceTypeDefinition := Description? "interface" Name DirectivesC? FieldsDefinition | Description? "interface" Name DirectivesC? NOT_LBRACE
InterfaceTypeExtension  := "extend" "interface" Name DirectivesC? FieldsDefinition | "extend" "interface" Name DirectivesC NOT_LBRACE
UnionTypeDefinition := Description? "union" Name DirectivesC? UnionMemberTypes?
UnionMemberTypes    := '=' '|'? NamedType | UnionMemberTypes '|' NamedType
UnionTypeExtension  := "extend" "union" Name DirectivesC? UnionMemberTypes | "extend" "union" Name DirectivesC
EnumTypeDefinition  := Description? "enum" Name DirectivesC? EnumValuesDefinition | Description? "enum" Name DirectivesC? NOT_LBRACE
EnumValuesDefinition:= '{' EnumValueDefinition+ '}'
EnumValueDefinition := Description? EnumValue DirectivesC?
EnumTypeExtension   := "extend" "enum" Name DirectivesC? EnumValuesDefinition | "extend" "enum" Name DirectivesC NOT_LBRACE
InputObjectTypeDefinition := Description? "input" Name DirectivesC? InputFieldsDefinition | Description? "input" Name DirectivesC? NOT_LBRACE
InputFieldsDefinition := '{' InputValueDefinition+ '}'
InputObjectTypeExtension := "extend" "input" Name DirectivesC? InputFieldsDefinition | "extend" "input" Name DirectivesC NOT_LBRACE
DirectiveDefinition := Description? "directive" '@' Name ArgumentsDefinition? "on" DirectiveLocations
DirectiveLocations  := '|'? DirectiveLocation | DirectiveLocations '|' DirectiveLocation
DirectiveLocation   := DIR_LOC

TopDocument         := Document EOF
TopValue            := Value EOF
TopType             := Type EOF
"""

FRAGMENT_PLAIN = 'FragmentDefinition := "fragment" FragmentName TypeCondition Directives? SelectionSet'
FRAGMENT_VARS = 'FragmentDefinition := "fragment" FragmentName VariableDefinitions? TypeCondition Directives? SelectionSet'
DEFINITION_EXEC = "Definition := ExecutableDefinition"
DEFINITION_ALL = "Definition := ExecutableDefinition | TypeSystemDefinition | TypeSystemExtension"


def term_matches(term, tok):
    kind, value = tok
    if term[0] == "'":
        return kind == "Punct" and value == term[1:-1]
    if term[0] == '"':
        return kind == "Name" and value == term[1:-1]
    if term == "NAME":
        return kind == "Name"
    if term == "NAME_NOT_ON":
        return kind == "Name" and value != "on"
    if term == "ENUM_NAME":
        return kind == "Name" and value not in ("true", "false", "null")
    if term == "INT":
        return kind == "Int"
    if term == "FLOAT":
        return kind == "Float"
    if term == "STR":
        return kind == "String" or kind == "BlockString"
    if term == "DIR_LOC":
        return kind == "Name" and (value in EXEC_LOCATIONS or value in TS_LOCATIONS)
    if term == "EOF":
        return kind == "EOF"
    raise ValueError(term)


def is_terminal(sym):
    return sym[0] in "'\"" or sym.isupper() or sym in ("NOT_LBRACE",)


def compile_grammar(allow_type_system, fragment_variables):
    text = GRAMMAR + "\n" + (FRAGMENT_VARS if fragment_variables else FRAGMENT_PLAIN) + "\n" + \
        (DEFINITION_ALL if allow_type_system else DEFINITION_EXEC) + "\n"
    rules = {}

    def add(lhs, rhs):
        rules.setdefault(lhs, [])
        if rhs not in rules[lhs]:
            rules[lhs].append(rhs)

    for line in text.splitlines():
        line = line.strip()
        if not line or line.startswith("#"):
            continue
        lhs, rhs = line.split(":=")
        lhs = lhs.strip()
        for alt in rhs.split(" | "):
            syms = alt.split()
            # expand ? into alternatives, + into a left-recursive helper
            expansions = [[]]
            for s in syms:
                if s.endswith("?") and len(s) > 1:
                    base = s[:-1]
                    expansions = [e + [base] for e in expansions] + [list(e) for e in expansions]
                elif s.endswith("+") and len(s) > 1 and s != "'+'":
                    base = s[:-1]
                    plus = base + "_plus"
                    add(plus, (base,))
                    add(plus, (plus, base))
                    expansions = [e + [plus] for e in expansions]
                else:
                    expansions = [e + [s] for e in expansions]
            for e in expansions:
                if not e:
                    raise ValueError("empty production for " + lhs)
                add(lhs, tuple(e))
    return rules


_CACHE = {}


class Recognizer:
    """Incremental Earley recogniser.  feed(tok) -> True while the consumed prefix is viable
    (some continuation derives from `start`); accepted() after the EOF token was fed."""

    def __init__(self, start="TopDocument", allow_type_system=False, fragment_variables=False):
        key = (allow_type_system, fragment_variables)
        if key not in _CACHE:
            _CACHE[key] = compile_grammar(*key)
        self.rules = _CACHE[key]
        self.start = start
        # item = (lhs, rhs, dot, origin)
        self.sets = [set()]
        for rhs in self.rules[start]:
            self.sets[0].add((start, rhs, 0, 0))
        self.done = False
        self.ok = False

    def _closure(self, i, tok):
        """predict / complete / resolve zero-width assertions against the incoming token."""
        S = self.sets[i]
        work = list(S)
        while work:
            lhs, rhs, dot, origin = work.pop()
            if dot == len(rhs):
                for (l2, r2, d2, o2) in list(self.sets[origin]):
                    if d2 < len(r2) and r2[d2] == lhs:
                        it = (l2, r2, d2 + 1, o2)
                        if it not in S:
                            S.add(it)
                            work.append(it)
                continue
            sym = rhs[dot]
            if sym == "NOT_LBRACE":
                if not (tok[0] == "Punct" and tok[1] == "{"):
                    it = (lhs, rhs, dot + 1, origin)
                    if it not in S:
                        S.add(it)
                        work.append(it)
            elif not is_terminal(sym):
                for r in self.rules[sym]:
                    it = (sym, r, 0, i)
                    if it not in S:
                        S.add(it)
                        work.append(it)
                # completion of an already finished sym at the same origin cannot happen: no nullable symbols

    def feed(self, tok):
        if self.done:
            return False
        i = len(self.sets) - 1
        self._closure(i, tok)
        nxt = set()
        for (lhs, rhs, dot, origin) in self.sets[i]:
            if dot < len(rhs) and is_terminal(rhs[dot]) and rhs[dot] != "NOT_LBRACE" and term_matches(rhs[dot], tok):
                nxt.add((lhs, rhs, dot + 1, origin))
        self.sets.append(nxt)
        if tok[0] == "EOF":
            self.done = True
            self.ok = any(l == self.start and d == len(r) and o == 0 for (l, r, d, o) in nxt)
            return self.ok
        return bool(nxt)

    def accepted(self):
        return self.done and self.ok


def recognises(tokens, start="TopDocument", allow_type_system=False, fragment_variables=False):
    r = Recognizer(start, allow_type_system, fragment_variables)
    for t in tokens:
        if not r.feed(t):
            return False
    r.feed(("EOF", None))
    return r.accepted()


def viable_prefix(tokens, start="TopDocument", allow_type_system=False, fragment_variables=False):
    r = Recognizer(start, allow_type_system, fragment_variables)
    for t in tokens:
        if not r.feed(t):
            return False
    return True


# ---------------------------------------------------------------------------------------------
# Sentence generation: one witness text per EXPANDED production alternative (every combination of
# optional parts of every production), embedded in a shortest context from the start symbol.
_TERMINAL_TEXT = {"NAME": "a", "NAME_NOT_ON": "a", "ENUM_NAME": "a", "INT": "1", "FLOAT": "1.5", "STR": '"s"', "DIR_LOC": "QUERY", "EOF": None, "NOT_LBRACE": None}


def _term_text(sym):
    if sym[0] in "'\"":
        return sym[1:-1]
    return _TERMINAL_TEXT[sym]


def sentences(start="TopDocument", allow_type_system=False, fragment_variables=False):
    """-> sorted list of token-text lists (joined by the caller); every one is in the language (checked by the recogniser)"""
    rules = compile_grammar(allow_type_system, fragment_variables)
    INF = 10 ** 9
    best = {}          # nonterminal -> shortest yield (list of token texts)

    def yield_of(rhs):
        out = []
        for s in rhs:
            if is_terminal(s):
                t = _term_text(s)
                if t is not None:
                    out.append(t)
            else:
                if s not in best:
                    return None
                out.extend(best[s])
        return out
    changed = True
    while changed:
        changed = False
        for lhs, alts in rules.items():
            for rhs in alts:
                y = yield_of(rhs)
                if y is not None and (lhs not in best or len(y) < len(best[lhs])):
                    best[lhs] = y
                    changed = True
    ctx = {start: ([], [])}
    work = [start]
    while work:
        a = work.pop(0)
        pre_a, suf_a = ctx[a]
        for rhs in rules.get(a, []):
            for i, s in enumerate(rhs):
                if is_terminal(s):
                    continue
                left, right = yield_of(rhs[:i]), yield_of(rhs[i + 1:])
                if left is None or right is None:
                    continue
                c = (pre_a + left, right + suf_a)
                if s not in ctx or len(c[0]) + len(c[1]) < len(ctx[s][0]) + len(ctx[s][1]):
                    ctx[s] = c
                    work.append(s)
    out = set()
    for n, (pre, suf) in ctx.items():
        for rhs in rules.get(n, []):
            y = yield_of(rhs)
            if y is not None:
                out.add(tuple(pre + y + suf))
    return sorted(out)


def sentence_texts():
    """(entry, text) for every entry point / flag set; only texts the recogniser accepts (lookahead-restricted alternatives may drop out)"""
    res = []
    for entry, kw in (("document", dict()), ("document_fragvars", dict(fragment_variables=True)), ("document_ts", dict(allow_type_system=True)),
                      ("value", dict(start="TopValue")), ("type", dict(start="TopType"))):
        for toks in sentences(**kw):
            text = " ".join(toks)
            res.append((entry, text))
    # de-duplicate texts that several entries share, keeping the first entry
    seen, out = set(), []
    for e, t in res:
        if (e.split("_")[0], t) in seen and e != "document_ts":
            continue
        seen.add((e.split("_")[0], t))
        out.append((e, t))
    return out
