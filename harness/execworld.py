"""Shared execution world for C08 / C09 / C16: a small schema whose resolvers are chosen per field
(default resolver / custom value / ResolverError / unexpected ValueError), run under the four
executor/runtime configurations with a harness-controlled completion order.

Environment stubs (listed in evidence):
  * ThreadPoolRuntime._inner is replaced by StubPool: submit() records the task and returns a pending
    concurrent.futures.Future; the harness runs recorded tasks on its own thread in the chosen order
    (callbacks are atomic: no pre-emption inside a future callback is explored).
  * asyncio: DetLoop (SelectorEventLoop with time() == 0.0); deferred resolvers are coroutines awaiting a
    loop future that the harness completes in the chosen order; after each completion the loop's ready queue
    is drained (its internal order is the real one).
"""
import asyncio
import json
from concurrent.futures import Future

from py_gql import process_graphql_query
from py_gql.exc import ResolverError
from py_gql.execution import BlockingExecutor, Executor, Instrumentation, MultiInstrumentation
from py_gql.execution.runtime import AsyncIORuntime, BlockingRuntime, ThreadPoolRuntime
from py_gql.schema import ScalarType, Field, ID, Int, InterfaceType, ListType, NonNullType, ObjectType, Schema, Argument

PLAIN, VALUE, RESOLVER_ERROR, UNEXPECTED = 0, 1, 2, 3
KIND_NAMES = ("default-resolver", "custom-value", "custom-ResolverError", "custom-ValueError")

ROOT = {
    "a": 1, "b": 2, "nn": 5, "m3": 3,
    "o": {"x": 10, "y": 20, "id": "o1", "__typename__": "Obj"},
    "l": [{"x": 1, "y": 2, "id": "l0"}, {"x": 3, "y": 4, "id": "l1"}],
    "n": {"x": 7, "y": 8, "id": "n1", "__typename__": "Obj"},
    "m1": {"x": 11, "y": 12, "id": "m1"}, "m2": {"x": 21, "y": 22, "id": "m2"},
    "lf": [{}, {"id": "z"}, None, {"id": None}],          # falsy but non-null list entries: an empty object is an object
    # a list of an abstract type whose SECOND item cannot be typed (the type resolver raises ResolverError): the list field fails while item 1 is completed,
    # after the sub-selection of item 0 has been started
    "ml": [{"x": 41, "y": 42, "id": "ml0"}, {"id": "bad"}, {"x": 43, "y": 44, "id": "ml2"}],
}

TEMPLATES = (
    ("flat", "{ a b nn }"),
    ("nested", "{ a o { x y } b }"),
    ("list", "{ l { x y } a }"),
    ("abstract", "{ n { id ... on Obj { x } } a }"),
    ("merge", "{ a o { x } o { y } }"),
    ("mutation", "mutation { m1 { x } m2 { x y } m3 }"),
    ("wide", "{ a o { x y } l { x } n { id } }"),
    ("deep-list", "{ l { x y } o { y x } }"),
    ("completion-error", "{ a sc o { x sc } b }"),          # `sc` resolves fine but its scalar's serialize raises ResolverError: a field error raised while COMPLETING
    ("falsy-items", "{ lf { id __typename } a }"),
    ("deferred-by-default-resolver", "{ a ro { x dm y } b }"),      # `dm` has no resolver: the default resolver calls the object's method, which returns a deferred value (that may fail)
)


class PoolStarvation(RuntimeError):
    """a pool task waits (Future.result()) for another task that is still QUEUED on the same pool: on the one-worker pool this stub models,
    nothing can ever run that task"""


class StubFuture(Future):
    def result(self, timeout=None):
        if not self.done():
            raise PoolStarvation("a pool worker blocks on a task that is still queued on the same pool")
        return super().result(timeout)


class StubPool:
    def __init__(self):
        self.tasks = []
        self.submitted = 0

    def submit(self, fn, *a, **kw):
        f = StubFuture()
        self.tasks.append((f, fn, a, kw))
        self.submitted += 1
        return f

    def run(self, k):
        f, fn, a, kw = self.tasks.pop(k)
        f.set_running_or_notify_cancel()
        try:
            r = fn(*a, **kw)
        except BaseException as e:  # noqa  (what ThreadPoolExecutor's worker does)
            f.set_exception(e)
        else:
            f.set_result(r)

    def shutdown(self, *a, **kw):
        pass


class DetLoop(asyncio.SelectorEventLoop):
    def time(self):
        return 0.0


def drain(loop):
    """run the loop until its ready queue is empty (what run_forever does, without blocking in select)"""
    n = 0
    asyncio.events._set_running_loop(loop)
    try:
        while loop._ready:
            loop._run_once()
            n += 1
            if n > 10000:
                raise RuntimeError("event loop does not become idle")
    finally:
        asyncio.events._set_running_loop(None)


SHARED_RESOLVER = False      # harness switch: see World.resolver
NESTED_SUBMIT = False        # harness switch: custom-value resolvers hand their work to the runtime again (info.runtime.submit) and return what submit returns
SAME_ROOT = False            # harness switch: the query and mutation root are the same object type
UNEXPECTED_EXC = 0           # harness switch: which exception class a resolver of kind UNEXPECTED raises (index into unexpected_exceptions())


def unexpected_exceptions():
    from py_gql import exc
    return (ValueError, exc.UnknownEnumValue, exc.CoercionError, exc.GraphQLError, exc.ExecutionError, KeyError, exc.ScalarSerializationError)


class Rec:
    """an application object (not a Mapping): the default resolver reads attributes and CALLS methods (ctx, info, **args)"""
    def __init__(self, world, **kw):
        self.__dict__.update(kw)
        self._world = world

    def __getitem__(self, key):          # the custom resolvers of the world read root[key]
        return self.__dict__[key]

    def get(self, key, default=None):
        return self.__dict__.get(key, default)

    def dm(self, ctx, info, **kw):
        """a DEFERRED value produced by the object itself and found by the default resolver (no explicit resolver on the field)"""
        w = self._world
        kind = w.kinds.get("dm", VALUE)

        def work():
            return w._compute("dm", kind, self, tuple(info.path))
        if w.mode == "async":
            async def co():
                fut = w.loop.create_future()
                w.pending.append((fut, work))
                return await fut
            return co()
        return info.runtime.submit(work)


class World:
    """kinds: dict field-key -> kind for 'a', 'o', 'x', 'nn', 'l', 'm1', 'm2', 'm3', 'y' (missing = PLAIN)"""

    def __init__(self, kinds, mode, nn_null=False, log=None):
        self.kinds = kinds
        self.mode = mode            # 'blocking' | 'thread' | 'async' | 'async-sync' (plain functions on the asyncio runtime)
        self.nn_null = nn_null
        self.pending = []           # asyncio: (future, thunk)
        self.loop = None
        self.log = log if log is not None else []
        self._shared = None

    def _compute(self, key, kind, root, path=None):
        self.log.append(("resolver", key, root.get("id") if isinstance(root, dict) else None, path))
        if kind == RESOLVER_ERROR:
            raise ResolverError("boom %s" % key, extensions={"code": key})
        if kind == UNEXPECTED:
            raise unexpected_exceptions()[UNEXPECTED_EXC]("unexpected %s" % key)
        if key == "nn" and self.nn_null:
            return None
        if key in ("sc", "msc"):
            return "boom"
        if key == "dm":
            return 77
        if key == "ro":
            return Rec(self, x=31, y=32, id="ro1")
        return root[key]

    def resolver(self, key):
        kind = self.kinds.get(key, VALUE if key in ("sc", "msc", "ro", "ml") else PLAIN)
        if kind == PLAIN and not (key == "nn" and self.nn_null):
            return None
        if SHARED_RESOLVER:
            # ONE function object serves every non-plain field (it looks the field up in info): what a generic
            # data-loader style resolver does, and what the executor's per-resolver caches must cope with
            if self._shared is None:
                self._shared = self._make_shared()
            return self._shared
        if self.mode == "async":
            async def r(root, ctx, info, **kw):
                fut = self.loop.create_future()
                self.pending.append((fut, lambda: self._compute(key, kind, root, tuple(info.path))))
                return await fut
            if NESTED_SUBMIT and kind == VALUE:
                async def outer(root, ctx, info, **kw):
                    return await info.runtime.submit(r, root, ctx, info, **kw)
                return outer
            return r

        def r(root, ctx, info, **kw):  # noqa: F811
            return self._compute(key, kind, root, tuple(info.path))
        if NESTED_SUBMIT and kind == VALUE:
            # the public way of off-loading work from inside a resolver: the value comes back as whatever the runtime's submit returns
            # (a pool future on the thread pool, the plain value on the blocking / asyncio runtimes)
            def outer(root, ctx, info, **kw):  # noqa: F811
                return info.runtime.submit(r, root, ctx, info, **kw)
            return outer
        return r

    def _make_shared(self):
        def of(info):
            key = info.field_definition.name
            return key, self.kinds.get(key, PLAIN)
        if self.mode == "async":
            async def r(root, ctx, info, **kw):
                key, kind = of(info)
                fut = self.loop.create_future()
                self.pending.append((fut, lambda: self._compute(key, kind, root, tuple(info.path))))
                return await fut
            return r

        def r(root, ctx, info, **kw):  # noqa: F811
            key, kind = of(info)
            return self._compute(key, kind, root, tuple(info.path))
        return r

    def schema(self):
        def cannot_serialize(value):
            raise ResolverError("cannot serialize %s" % (value,))
        odd = ScalarType("Odd", serialize=cannot_serialize, parse=lambda v: v)
        node = InterfaceType("Node", [Field("id", ID)])

        def thing_type(value, ctx, info):
            if value.get("id") == "bad":
                raise ResolverError("cannot tell the type of %s" % (value.get("id"),))
            return "Obj"
        thing = InterfaceType("Thing", [Field("id", ID)], resolve_type=thing_type)
        obj = ObjectType("Obj", [Field("x", Int, resolver=self.resolver("x")), Field("y", Int, resolver=self.resolver("y")), Field("id", ID),
                                 Field("sc", odd, resolver=self.resolver("sc")),
                                 Field("dm", Int)],          # no resolver: the default resolver finds the object's method
                         interfaces=[node, thing])
        q = ObjectType("Query", [
            Field("sc", odd, resolver=self.resolver("sc")), Field("lf", ListType(obj)),
            Field("a", Int, resolver=self.resolver("a")), Field("b", Int), Field("nn", NonNullType(Int), resolver=self.resolver("nn")),
            Field("o", obj, resolver=self.resolver("o")), Field("l", ListType(obj), resolver=self.resolver("l")),
            Field("n", node, resolver=self.resolver("n")),
            Field("ro", obj, resolver=self.resolver("ro")),      # resolves to a Rec object
        ])
        mfields = [Field("m1", obj, resolver=self.resolver("m1")), Field("m2", obj, resolver=self.resolver("m2")), Field("m3", Int, resolver=self.resolver("m3")),
                   Field("ml", ListType(thing), resolver=self.resolver("ml")),
                   Field("msc", odd, resolver=self.resolver("msc"))]      # resolves fine, fails while the value is COMPLETED (the scalar's serialize raises ResolverError)
        if SAME_ROOT:
            # schema { query: Root mutation: Root }: one object type serves as both roots
            root = ObjectType("Query", list(q.fields) + mfields)
            return Schema(root, mutation_type=root, types=[obj])
        m = ObjectType("Mutation", mfields)
        return Schema(q, mutation_type=m, types=[obj])


def summarize(res):
    """(ordered data as json text, sorted error multiset)"""
    data = json.dumps(res.response().get("data", "<no data key>"), sort_keys=False)
    errs = sorted((str(getattr(e, "message", e)), json.dumps(list(getattr(e, "path", None) or []))) for e in (res.errors or []))
    return data, errs


def run_blocking(kinds, query, executor_cls, nn_null=False, log=None, **kw):
    w = World(kinds, "blocking", nn_null, log)
    try:
        res = process_graphql_query(w.schema(), query, root=ROOT, executor_cls=executor_cls, runtime=BlockingRuntime(), **kw)
    except ResolverError:
        raise
    except Exception as e:  # the documented way an unexpected resolver exception surfaces in a blocking run
        return ("raised", type(e).__name__, str(e)), w
    return ("ok",) + summarize(res), w


def run_thread(kinds, query, choose, nn_null=False, log=None, **kw):
    """choose(step, n_pending) -> index of the task that completes next"""
    w = World(kinds, "thread", nn_null, log)
    rt = ThreadPoolRuntime(max_workers=1)
    rt._inner.shutdown(wait=False)
    pool = StubPool()
    rt._inner = pool
    out = process_graphql_query(w.schema(), query, root=ROOT, executor_cls=Executor, runtime=rt, **kw)
    step = 0
    while pool.tasks:
        k = choose(step, len(pool.tasks))
        if k is None:
            return ("pruned",), w
        pool.run(k)
        step += 1
    w.steps = step
    w.submitted = pool.submitted
    if not isinstance(out, Future):
        return ("not-a-future", repr(type(out))), w
    if not out.done():
        return ("pending",), w
    exc = out.exception()
    if exc is not None:
        return ("raised", type(exc).__name__, str(exc)), w
    return ("ok",) + summarize(out.result()), w


def run_async(kinds, query, choose, coroutines=True, nn_null=False, log=None, **kw):
    w = World(kinds, "async" if coroutines else "async-sync", nn_null, log)
    loop = DetLoop()
    w.loop = loop
    try:
        rt = AsyncIORuntime(loop=loop, execute_blocking_functions_in_thread=False)

        async def main():
            return await process_graphql_query(w.schema(), query, root=ROOT, executor_cls=Executor, runtime=rt, **kw)
        task = loop.create_task(main())
        drain(loop)
        step = 0
        while w.pending:
            k = choose(step, len(w.pending))
            if k is None:
                task.cancel()
                drain(loop)
                return ("pruned",), w
            fut, thunk = w.pending.pop(k)
            try:
                v = thunk()
            except Exception as e:  # noqa
                fut.set_exception(e)
            else:
                fut.set_result(v)
            drain(loop)
            step += 1
        w.steps = step
        if not task.done():
            task.cancel()
            drain(loop)
            return ("pending",), w
        exc = task.exception()
        if exc is not None:
            return ("raised", type(exc).__name__, str(exc)), w
        return ("ok",) + summarize(task.result()), w
    finally:
        loop.close()


class Recorder(Instrumentation):
    def __init__(self, log, name):
        self.log, self.name = log, name

    def on_query_start(self): self.log.append((self.name, "query", "start"))          # noqa: E704
    def on_query_end(self): self.log.append((self.name, "query", "end"))              # noqa: E704
    def on_parsing_start(self): self.log.append((self.name, "parsing", "start"))      # noqa: E704
    def on_parsing_end(self): self.log.append((self.name, "parsing", "end"))          # noqa: E704
    def on_validation_start(self): self.log.append((self.name, "validation", "start"))  # noqa: E704
    def on_validation_end(self): self.log.append((self.name, "validation", "end"))    # noqa: E704
    def on_execution_start(self): self.log.append((self.name, "execution", "start"))  # noqa: E704
    def on_execution_end(self): self.log.append((self.name, "execution", "end"))      # noqa: E704

    def on_field_start(self, root, ctx, info):
        self.log.append((self.name, "field", "start", tuple(info.path)))

    def on_field_end(self, root, ctx, info):
        self.log.append((self.name, "field", "end", tuple(info.path)))


def make_middleware(log, name):
    def mw(next_, root, ctx, info, **kw):
        log.append(("mw", name, "in", tuple(info.path)))
        return next_(root, ctx, info, **kw)
    return mw
