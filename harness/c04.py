"""C04 - execution yields the specified result for every valid operation."""
import json

from vf import known  # noqa: F401
from vf.spec import Cond, result, untraced, retraced, shard_of, thorough, concrete_int, pick  # noqa: F401

from py_gql import graphql_blocking
from py_gql.lang import parse
from py_gql.validation import validate_ast
from harness import gqlworld as G
from oracles import ref_exec as RX

NT = len(G.TEMPLATES)
VARSETS = (None, {"s": True, "i": True}, {"s": False, "i": False}, {"s": True, "i": False}, {"x": 0, "r": "ADMIN"}, {"x": None}, {"f": {"a": 1, "c": None}, "ids": None}, {"n": 3})


REQUEST_ERROR = "<request error: no execution>"


def _outcome_of(res):
    errs = sorted(((tuple(e.path) if getattr(e, "path", None) is not None else None, (e.nodes[0].loc[0] if getattr(e, "nodes", None) else None))
                   for e in res.errors), key=repr)
    got = res.response().get("data", "<no data>")
    if got in (None, "<no data>") and errs and all(p is None for p, _ in errs):
        return REQUEST_ERROR, [], [str(e) for e in res.errors]       # rejected before execution: errors without a path, no data
    return got, errs, [str(e) for e in res.errors]


EXECUTORS_DIFFER = "<BlockingExecutor and the generic Executor answer differently>"
DEFERRED_DIFFERS = "<the generic Executor on the thread-pool runtime (tasks completed last-submitted-first) answers differently>"


def real_run(schema, text, variables, data, opname):
    """the request through BOTH implementations of the execution algorithm (BlockingExecutor via graphql_blocking, the generic Executor on the blocking
    runtime); they must agree, and the caller compares the common answer with the reference"""
    from py_gql import process_graphql_query
    from py_gql.execution import Executor
    a = _outcome_of(graphql_blocking(schema, text, variables=variables, root=data, operation_name=opname))
    b = _outcome_of(process_graphql_query(schema, text, variables=variables, root=data, operation_name=opname, executor_cls=Executor))
    if json.dumps(a[0]) != json.dumps(b[0]) or a[1] != b[1]:
        return EXECUTORS_DIFFER, [], ["%r vs %r" % (a, b)]
    # third leg: the generic Executor on the thread-pool runtime (stub pool: every explicit resolver becomes a task), the pending tasks completed
    # LAST-SUBMITTED-FIRST - a deterministic completion order opposite to the document order; key order, values and errors must not follow it
    from concurrent.futures import Future
    from py_gql.execution.runtime import ThreadPoolRuntime
    from harness.execworld import StubPool
    rt = ThreadPoolRuntime(max_workers=1)
    rt._inner.shutdown(wait=False)
    pool = rt._inner = StubPool()
    out = process_graphql_query(schema, text, variables=variables, root=data, operation_name=opname, executor_cls=Executor, runtime=rt)
    n = 0
    while pool.tasks:
        pool.run(len(pool.tasks) - 1)
        n += 1
        if n > 10000:
            return DEFERRED_DIFFERS, [], ["the pool never drains"]
    if not isinstance(out, Future) or not out.done():
        return DEFERRED_DIFFERS, [], ["no settled future from the thread-pool runtime: %r" % (out,)]
    c = _outcome_of(out.result())       # an exception stored in the future propagates like one raised by the blocking legs
    if json.dumps(a[0]) != json.dumps(c[0]) or a[1] != c[1]:
        return DEFERRED_DIFFERS, [], ["%r vs %r" % (a, c)]
    return a


def ref_run(text, variables, data, opname, fail):
    doc = parse(text)
    try:
        return RX.run(G.MODEL, doc, variables, RX.World(fail=fail, fns=G.FNS), opname, data)
    except RX.RequestError:
        return REQUEST_ERROR, []


def _exec_template(t: int, nul: int, fail: int, vs: int, hist: int) -> bool:
    """
    pre: 0 <= t < NT and 0 <= nul < len(G.NULLS) and 0 <= fail < len(G.FAILS) and 0 <= vs < len(VARSETS) and 0 <= hist <= 2
    pre: nul == 0 or fail == 0 or thorough()
    pre: shard_of(t)
    post: _
    """
    T = concrete_int(t, 0, NT - 1)
    text, default_vars = G.TEMPLATES[T]
    NUL, FAIL, VS, H = pick(nul, G.NULLS), pick(fail, G.FAILS), pick(vs, VARSETS), concrete_int(hist, 0, 2)
    with untraced():
        variables = dict(default_vars)
        if VS is not None:
            if not (set(VS) <= set(default_vars) or (T in (10, 11, 13) and set(VS) & {"x", "r", "f", "ids"})):
                return result(True, False)
            variables.update({k: v for k, v in VS.items()})
            # keep only variables the operation declares
            declared = set(default_vars) | ({"x"} if T == 11 else set())
            variables = {k: v for k, v in variables.items() if k in declared}
        opname = G.OPNAMES.get(T)
        schema = G.build_real_schema(FAIL)
        doc = parse(text)
        if validate_ast(schema, doc).errors:
            return result(False, True)          # templates are valid by construction
        # history: requests served earlier by the same schema object must not matter
        if H >= 1:
            graphql_blocking(schema, "{ me { name age friends { name } } users { tags } }", root=G.make_data("me.age", True))
        if H == 2:
            graphql_blocking(schema, text, variables=variables, root=G.make_data(None, False), operation_name=opname)
        list_null = NUL is None and FAIL == () and VS is None and H == 1
        data = G.make_data(NUL, list_null)
        got_data, got_errs, msgs = real_run(schema, text, variables, data, opname)
        exp_data, exp_errs = ref_run(text, variables, G.make_data(NUL, list_null), opname, FAIL)
        ok = json.dumps(got_data) == json.dumps(exp_data) and got_errs == exp_errs
    return result(ok, True)


PIECES = ("owner { name }", "... on Dog { owner { age } }", "... on Cat { owner { id } }", "... on Dog { barks }", "name",
          "... on Animal { owner { best { name } } }", "... on Node { id }", "owner { n2: name }")


def _exec_abstract(mask: int, reverse: bool, fail: int, frag: bool) -> bool:
    """
    pre: 1 <= mask < 256 and 0 <= fail < len(G.FAILS)
    pre: shard_of(mask)
    pre: thorough() or fail == 0 or fail == 1
    post: _
    """
    M = concrete_int(mask, 1, 255)
    REV, FR = (True if reverse else False), (True if frag else False)
    FAIL = pick(fail, G.FAILS)
    with untraced():
        sel = " ".join(p for i, p in enumerate(PIECES) if M >> i & 1)
        if FR:
            text = "{ animals { ...Sel } } fragment Sel on Animal { %s }" % sel
        else:
            text = "{ animals { %s } }" % sel
        schema = G.build_real_schema(FAIL)
        doc = parse(text)
        if validate_ast(schema, doc).errors:
            return result(True, False)
        nul = "animals.reversed" if REV else None
        got_data, got_errs, msgs = real_run(schema, text, {}, G.make_data(nul), None)
        exp_data, exp_errs = ref_run(text, {}, G.make_data(nul), None, FAIL)
        ok = json.dumps(got_data) == json.dumps(exp_data) and got_errs == exp_errs
    return result(ok, True)


from harness import docgen as DG  # noqa: E402


def _exec_pieces(pa: int, pb: int, pc: int, pd: int, sv: bool, iv: bool, wrap: int) -> bool:
    """
    pre: 0 <= pa < len(DG.PIECES) and pa < pb <= len(DG.PIECES) and pb <= pc <= len(DG.PIECES) and pc <= pd <= len(DG.PIECES) and 0 <= wrap <= 3
    pre: (pb == len(DG.PIECES) or pb < pc or pc == len(DG.PIECES)) and (pc == len(DG.PIECES) or pc < pd or pd == len(DG.PIECES))
    pre: thorough() or pd == len(DG.PIECES)
    pre: shard_of(pa * 5 + pb)
    post: _
    """
    M = DG.mask_of([concrete_int(x, 0, len(DG.PIECES)) for x in (pa, pb, pc, pd)])
    W = concrete_int(wrap, 0, 3)
    variables = {"s": True if sv else False, "i": True if iv else False}
    with untraced():
        text = DG.document(M, W)
        schema = G.build_real_schema()
        doc = parse(text)
        if validate_ast(schema, doc).errors:
            return result(True, False)
        got_data, got_errs, msgs = real_run(schema, text, variables, G.make_data(), None)
        exp_data, exp_errs = ref_run(text, variables, G.make_data(), None, ())
        ok = json.dumps(got_data) == json.dumps(exp_data) and got_errs == exp_errs
    return result(ok, True)


# ------------------------------------------------------------------ leaf completion: every leaf type x falsy / edge values x wrappers x value source
from py_gql import process_graphql_query  # noqa: E402
from py_gql.execution import BlockingExecutor, Executor  # noqa: E402
from py_gql.schema import (  # noqa: E402
    Boolean, EnumType, EnumValue, Field, Float, ID, Int, ListType, NonNullType, ObjectType, ScalarType, Schema, String,
)


class _Falsy:
    """an application object that is falsy and has len() == 0 (an empty collection-like record)"""
    def __init__(self, **kw):
        self.__dict__.update(kw)

    def __bool__(self):
        return False

    def __len__(self):
        return 0


_LEAF_ENUM = EnumType("Lvl", [EnumValue("ZERO", 0), EnumValue("EMPTY", ""), EnumValue("ONE", 1), EnumValue("U", "u"), EnumValue("NEG", -1)])
_LEAF_SCALAR = ScalarType("Tag", serialize=lambda v: "T:%r" % (v,), parse=lambda v: v)
# (type, [(internal value, expected JSON)]) - only values whose result coercion the specification fixes (section 3.5.x / 3.9)
LEAF_TYPES = (
    ("Int", Int, [(0, 0), (7, 7), (-1, -1), (2147483647, 2147483647), (-2147483648, -2147483648)]),
    ("Float", Float, [(0.0, 0.0), (1.5, 1.5), (0, 0.0), (-3, -3.0), (1e300, 1e300)]),
    ("String", String, [("", ""), ("a", "a"), ("0", "0"), ("null", "null"), ("False", "False")]),
    ("Boolean", Boolean, [(False, False), (True, True)]),
    ("ID", ID, [("", ""), ("0", "0"), ("a", "a"), (0, "0"), (12, "12")]),
    ("Lvl", _LEAF_ENUM, [(0, "ZERO"), ("", "EMPTY"), (1, "ONE"), ("u", "U"), (-1, "NEG")]),
    ("Tag", _LEAF_SCALAR, [(0, "T:0"), ("", "T:''"), (False, "T:False"), ((), "T:()"), ("x", "T:'x'")]),
    # (appended) values that are EQUAL (and hash alike) across Python types but serialise differently: 1 / 1.0 / True, 0 / 0.0 / False / -0.0
    ("Tag", _LEAF_SCALAR, [(1, "T:1"), (1.0, "T:1.0"), (True, "T:True"), (0.0, "T:0.0"), (-0.0, "T:-0.0"), ("1", "T:'1'")]),
)
LEAF_WRAPS = ("T", "T!", "[T]", "[T!]", "[T]!", "[[T]]", "[T!]!")
LEAF_SOURCES = ("resolver", "mapping key", "attribute", "method", "falsy object attribute")
LEAF_NULL = object()


def _leaf_world(wrap, tobj, value, good):
    """resolved value for field f and the expected (json of f, error path or None, o nulled): the library documents (and C04 states) that a
    null in a non-nullable position stays null at exactly that position with one error - it is not propagated to the parent"""
    v_in, v_out = value
    g_in, g_out = good
    null = v_in is LEAF_NULL
    vi = None if null else v_in
    if wrap == "T":
        return tobj, vi, v_out, None, False
    if wrap == "T!":
        return NonNullType(tobj), vi, v_out, (("o", "f") if null else None), False
    if wrap == "[T]":
        return ListType(tobj), [g_in, vi, g_in], [g_out, v_out, g_out], None, False
    if wrap == "[T!]":
        return ListType(NonNullType(tobj)), [g_in, vi, g_in], [g_out, v_out, g_out], (("o", "f", 1) if null else None), False
    if wrap == "[T]!":
        return NonNullType(ListType(tobj)), [vi], [v_out], None, False
    if wrap == "[[T]]":
        return ListType(ListType(tobj)), [[], [vi, g_in], ()], [[], [v_out, g_out], []], None, False
    if wrap == "[T!]!":
        return NonNullType(ListType(NonNullType(tobj))), [vi], [v_out], (("o", "f", 0) if null else None), False
    raise AssertionError(wrap)


def _twin(v):
    """a value of ANOTHER Python type that compares (and hashes) equal to v, or None"""
    if isinstance(v, bool):
        return 1 if v else 0
    if isinstance(v, int):
        return float(v)
    if isinstance(v, float) and v == int(v) and abs(v) < 2 ** 31:
        return int(v)
    return None


def _leaf_values(ty: int, val: int, wrap: int, src: int, ex: int, hist: int = 0) -> bool:
    """
    pre: 0 <= ty < len(LEAF_TYPES) and 0 <= val <= 6 and 0 <= wrap < len(LEAF_WRAPS) and 0 <= src < len(LEAF_SOURCES) and 0 <= ex <= 1
    pre: 0 <= hist <= 2 and (hist == 0 or src == 0 or thorough())
    pre: shard_of(ty * 7 + wrap)
    post: _
    """
    TY = concrete_int(ty, 0, len(LEAF_TYPES) - 1)
    VAL, WR, SRC, EX = concrete_int(val, 0, 6), pick(wrap, LEAF_WRAPS), concrete_int(src, 0, len(LEAF_SOURCES) - 1), concrete_int(ex, 0, 1)
    HIST = concrete_int(hist, 0, 2)
    with untraced():
        tname, tobj, values = LEAF_TYPES[TY]
        if VAL > len(values):
            return result(True, False)
        value = (LEAF_NULL, None) if VAL == len(values) else values[VAL]
        good = values[-1]
        ftype, resolved, exp_f, err_path, o_null = _leaf_world(WR, tobj, value, good)
        if HIST:
            # an EARLIER request in the same process (1: on the same leaf type object, 2: also in the same list) completed a value that is
            # equal to this one but of another Python type (1 / 1.0 / True): it must not decide how this one is serialised
            tw = None if value[0] is LEAF_NULL else _twin(value[0])
            if tw is None or (HIST == 2 and "[" not in WR):
                return result(True, False)
            early = ObjectType("O", [Field("f", ListType(tobj), resolver=lambda *a, **k: [tw])])
            process_graphql_query(Schema(ObjectType("Query", [Field("o", early)])), "{ o { f } }", root={"o": {}}, executor_cls=(BlockingExecutor, Executor)[EX])

        def fres(root, ctx, info):
            return resolved
        obj = ObjectType("O", [Field("a", Int), Field("f", ftype, resolver=(fres if SRC == 0 else None)), Field("b", Int)])
        if SRC == 0:
            o = {"a": 0, "b": 2}
        elif SRC == 1:
            o = {"a": 0, "f": resolved, "b": 2}
        elif SRC == 2:
            o = type("Rec", (), {})()
            o.a, o.f, o.b = 0, resolved, 2
        elif SRC == 3:
            o = type("Rec", (), {"f": lambda self, ctx, info: resolved})()
            o.a, o.b = 0, 2
        else:
            o = _Falsy(a=0, f=resolved, b=2)
        schema = Schema(ObjectType("Query", [Field("s", Int), Field("o", obj), Field("t", Int)]))
        res = process_graphql_query(schema, "{ s o { a f b } t }", root={"s": 0, "o": o, "t": 0}, executor_cls=(BlockingExecutor, Executor)[EX])
        data = res.response().get("data", "<no data>")
        errs = [tuple(e.path) if getattr(e, "path", None) is not None else None for e in (res.errors or [])]
        exp_data = {"s": 0, "o": (None if o_null else {"a": 0, "f": exp_f, "b": 2}), "t": 0}
        ok = json.dumps(data) == json.dumps(exp_data) and errs == ([err_path] if err_path else [])
    return result(ok, True)


INT_WRAPS = ("T", "T!", "[T]", "[T!]", "[T!]!", "[[T!]]")


def _int_result(v: int, wrap: int, ex: int, src: int) -> bool:
    """
    pre: -(2**33) <= v <= 2**33
    pre: 0 <= wrap < len(INT_WRAPS) and 0 <= ex <= 1 and 0 <= src <= 1
    pre: shard_of(wrap)
    post: _
    """
    # DATA-symbolic: the value a resolver hands back for an Int position is a z3 integer; both real executors run under tracing, so the
    # solver decides every comparison the library makes on it (spec 3.5.1 result coercion: a signed 32-bit integer or a field error)
    WR, EX, SRC = pick(wrap, INT_WRAPS), concrete_int(ex, 0, 1), concrete_int(src, 0, 1)
    with untraced():
        inner = NonNullType(Int) if "T!" in WR else Int
        if WR in ("T", "T!"):
            ftype = inner
        elif WR == "[[T!]]":
            ftype = ListType(ListType(inner))
        else:
            ftype = ListType(inner)
        if WR.endswith("]!"):
            ftype = NonNullType(ftype)
    resolved = v if WR in ("T", "T!") else ([[7], [8, v]] if WR == "[[T!]]" else [7, v, 9])
    with untraced():
        def fres(root, ctx, info):
            return resolved
        obj = ObjectType("O", [Field("a", Int), Field("f", ftype, resolver=(fres if SRC == 0 else None)), Field("b", Int)])
        schema = Schema(ObjectType("Query", [Field("s", Int), Field("o", obj), Field("t", Int)]))
    o = {"a": 0, "b": 2} if SRC == 0 else {"a": 0, "f": resolved, "b": 2}
    inrange = -2147483648 <= v <= 2147483647
    try:
        res = process_graphql_query(schema, "{ s o { a f b } t }", root={"s": 0, "o": o, "t": 0}, executor_cls=(BlockingExecutor, Executor)[EX])
    except RuntimeError:
        # the library's documented answer to a value that cannot be serialised (pinned by tests/test_execution/test_basic.py): the request
        # fails loudly as a developer error.  The property does not fix this case beyond 'the value is never delivered'; inside the range
        # it is a violation.
        return result(not inrange, not inrange)
    data = res.response().get("data", "<no data>")
    errs = [tuple(e.path) if getattr(e, "path", None) is not None else None for e in (res.errors or [])]
    if inrange:
        exp_f, exp_errs, o_null = resolved, [], False
    else:
        o_null = WR in ("T!", "[T!]!")
        exp_f = {"T": None, "T!": None, "[T]": [7, None, 9], "[T!]": None, "[T!]!": None, "[[T!]]": [[7], None]}[WR]
        exp_errs = [("o", "f") + {"T": (), "T!": (), "[T]": (1,), "[T!]": (1,), "[T!]!": (1,), "[[T!]]": (1, 1)}[WR]]
    exp_data = {"s": 0, "o": (None if o_null else {"a": 0, "f": exp_f, "b": 2}), "t": 0}
    ok = (data == exp_data) and errs == exp_errs
    return result(ok, not inrange)


CONDITIONS = [
    Cond(
        name="int_result", fn=_int_result, quick=120, thorough=600, per_path=120, shards_quick=6, shards_thorough=6,
        bound="the value resolved for an Int position is a SYMBOLIC integer, |v| <= 2**33 (z3 Int; the bound only limits the digit-count forks of the error message): 6 wrappers (T, T!, [T], [T!], [T!]!, [[T!]]) x resolver / mapping key x 2 executors, executed under tracing: "
              "inside the signed 32-bit range the value is delivered unchanged with no error, outside it it is never delivered: the request fails with the library's RuntimeError (documented developer error) or the position is a field error "
              "with the path of the item and null propagated to the nearest nullable ancestor, siblings undisturbed",
        symbolic={"v": "data: the resolved value", "wrap,ex,src": "choice"}, assumptions=["oracle: spec 3.5.1 result coercion + 6.4.4 error propagation"],
        witness={"v": 2147483648, "wrap": 3, "ex": 0, "src": 0},
    ),
    Cond(
        name="leaf_values", fn=_leaf_values, quick=60, thorough=120, per_path=60, shards_quick=16, shards_thorough=16,
        bound="CompleteValue on leaves as a full product (x an earlier request that completed an EQUAL value of another Python type - 1 / 1.0 / True - on the same leaf type): 8 leaf value sets (Int, Float, String, Boolean, ID, enum with falsy internal values, custom scalar) x every listed value incl. the falsy ones (0, 0.0, '', False, (), enum "
              "internal 0 / '') and null x 7 wrappers (T, T!, [T], [T!], [T]!, [[T]], [T!]!) x 5 value sources (resolver, mapping key, attribute, method, attribute of a falsy object) x 2 executors: the JSON of the field, "
              "the nulled ancestor and the error path are what spec 6.4.3 / 3.5 give; siblings before and after are undisturbed",
        symbolic={"ty,val,wrap,src,ex": "choice"}, assumptions=["only values whose result coercion the specification fixes (no out-of-range Int, no cross-kind values)"],
        witness={"ty": 0, "val": 0, "wrap": 0, "src": 0, "ex": 0, "hist": 0},
    ),
    Cond(
        name="exec_pieces", fn=_exec_pieces, quick=150, thorough=900, per_path=60, shards_quick=16, shards_thorough=16,
        bound="every ordered subset of size <= 3 (thorough <= 4) of %d selection pieces on one object (aliases of one field with different sub-depths, one named fragment spread plain / @skip / @include / at a deeper level, "
              "inline fragments with and without type condition, both directives on one field, nested fragments) x both values of two Boolean variables x 4 ways of wrapping the selection" % len(DG.PIECES),
        symbolic={"pa..pd": "choice: which pieces (increasing indices, 13 = none)", "sv,iv": "data: variable values", "wrap": "choice"}, assumptions=["as exec_template"],
        witness={"pa": 5, "pb": 6, "pc": 13, "pd": 13, "sv": True, "iv": True, "wrap": 0},
    ),
    Cond(
        name="exec_abstract", fn=_exec_abstract, quick=100, thorough=400, per_path=60, shards_quick=16, shards_thorough=16,
        bound="list of an interface type holding two object types in either order: every non-empty subset of 8 selection pieces (plain field, type-conditioned fragments on each member, on the interface, on another interface, "
              "same-key sub-selections that merge differently per runtime type, aliases), inline or through a named fragment, x failing-resolver sets (quick: 2)",
        symbolic={"mask": "choice: which selection pieces", "reverse": "choice: order of the list items", "fail": "choice", "frag": "choice: named fragment"},
        assumptions=["as exec_template"], witness={"mask": 3, "reverse": False, "fail": 0, "frag": False},
    ),
    Cond(
        name="exec_template", fn=_exec_template, quick=150, thorough=900, per_path=60, shards_quick=16, shards_thorough=20,
        bound="%d valid operation templates over a fixed 10-type schema (fragments, inline fragments, aliases, same-key merges, @skip/@include on variables, interface and union resolution, "
              "lists, enum with internal values, custom scalar, input objects, defaults, mutation, operation name) x %d null placements x %d failing-resolver sets (quick: not both) x %d variable sets x 3 request histories on the same Schema object"
              % (NT, len(G.NULLS), len(G.FAILS), len(VARSETS)),
        symbolic={"t": "choice: template", "nul": "choice: where the data world holds null", "fail": "choice: which resolvers raise ResolverError", "vs": "choice: variable assignment", "hist": "choice: earlier requests"},
        assumptions=["oracle: oracles/ref_exec.py (spec section 6 with the documented local-null rule); data compared with key order, errors as a multiset of (path, location of first field node)",
                     "real side: graphql_blocking on a schema built from the same plain-dict model"],
        witness={"t": 0, "nul": 0, "fail": 0, "vs": 0, "hist": 0},
    ),
]
