"""C04 - execution yields the specified result for every valid operation."""
import json

from vf import known  # noqa: F401
from vf.spec import Cond, result, untraced, retraced, shard_of, thorough, concrete_int, pick  # noqa: F401

from py_gql import graphql_blocking
from py_gql.lang import parse
from py_gql.validation import validate_ast
from harness import gqlworld as G
from oracles import ref_exec as RX

NT = len(G.TEMPLATES)
VARSETS = (None, {"s": True, "i": True}, {"s": False, "i": False}, {"s": True, "i": False}, {"x": 0, "r": "ADMIN"}, {"x": None}, {"f": {"a": 1, "c": None}, "ids": None}, {"n": 3})


REQUEST_ERROR = "<request error: no execution>"


def real_run(schema, text, variables, data, opname):
    res = graphql_blocking(schema, text, variables=variables, root=data, operation_name=opname)
    errs = sorted(((tuple(e.path) if getattr(e, "path", None) is not None else None, (e.nodes[0].loc[0] if getattr(e, "nodes", None) else None))
                   for e in res.errors), key=repr)
    got = res.response().get("data", "<no data>")
    if got in (None, "<no data>") and errs and all(p is None for p, _ in errs):
        return REQUEST_ERROR, [], [str(e) for e in res.errors]       # rejected before execution: errors without a path, no data
    return got, errs, [str(e) for e in res.errors]


def ref_run(text, variables, data, opname, fail):
    doc = parse(text)
    try:
        return RX.run(G.MODEL, doc, variables, RX.World(fail=fail, fns=G.FNS), opname, data)
    except RX.RequestError:
        return REQUEST_ERROR, []


def _exec_template(t: int, nul: int, fail: int, vs: int, hist: int) -> bool:
    """
    pre: 0 <= t < NT and 0 <= nul < len(G.NULLS) and 0 <= fail < len(G.FAILS) and 0 <= vs < len(VARSETS) and 0 <= hist <= 2
    pre: nul == 0 or fail == 0 or thorough()
    pre: shard_of(t)
    post: _
    """
    T = concrete_int(t, 0, NT - 1)
    text, default_vars = G.TEMPLATES[T]
    NUL, FAIL, VS, H = pick(nul, G.NULLS), pick(fail, G.FAILS), pick(vs, VARSETS), concrete_int(hist, 0, 2)
    with untraced():
        variables = dict(default_vars)
        if VS is not None:
            if not (set(VS) <= set(default_vars) or (T in (10, 11, 13) and set(VS) & {"x", "r", "f", "ids"})):
                return result(True, False)
            variables.update({k: v for k, v in VS.items()})
            # keep only variables the operation declares
            declared = set(default_vars) | ({"x"} if T == 11 else set())
            variables = {k: v for k, v in variables.items() if k in declared}
        opname = G.OPNAMES.get(T)
        schema = G.build_real_schema(FAIL)
        doc = parse(text)
        if validate_ast(schema, doc).errors:
            return result(False, True)          # templates are valid by construction
        # history: requests served earlier by the same schema object must not matter
        if H >= 1:
            graphql_blocking(schema, "{ me { name age friends { name } } users { tags } }", root=G.make_data("me.age", True))
        if H == 2:
            graphql_blocking(schema, text, variables=variables, root=G.make_data(None, False), operation_name=opname)
        list_null = NUL is None and FAIL == () and VS is None and H == 1
        data = G.make_data(NUL, list_null)
        got_data, got_errs, msgs = real_run(schema, text, variables, data, opname)
        exp_data, exp_errs = ref_run(text, variables, G.make_data(NUL, list_null), opname, FAIL)
        ok = json.dumps(got_data) == json.dumps(exp_data) and got_errs == exp_errs
    return result(ok, True)


PIECES = ("owner { name }", "... on Dog { owner { age } }", "... on Cat { owner { id } }", "... on Dog { barks }", "name",
          "... on Animal { owner { best { name } } }", "... on Node { id }", "owner { n2: name }")


def _exec_abstract(mask: int, reverse: bool, fail: int, frag: bool) -> bool:
    """
    pre: 1 <= mask < 256 and 0 <= fail < len(G.FAILS)
    pre: shard_of(mask)
    pre: thorough() or fail == 0 or fail == 1
    post: _
    """
    M = concrete_int(mask, 1, 255)
    REV, FR = (True if reverse else False), (True if frag else False)
    FAIL = pick(fail, G.FAILS)
    with untraced():
        sel = " ".join(p for i, p in enumerate(PIECES) if M >> i & 1)
        if FR:
            text = "{ animals { ...Sel } } fragment Sel on Animal { %s }" % sel
        else:
            text = "{ animals { %s } }" % sel
        schema = G.build_real_schema(FAIL)
        doc = parse(text)
        if validate_ast(schema, doc).errors:
            return result(True, False)
        nul = "animals.reversed" if REV else None
        got_data, got_errs, msgs = real_run(schema, text, {}, G.make_data(nul), None)
        exp_data, exp_errs = ref_run(text, {}, G.make_data(nul), None, FAIL)
        ok = json.dumps(got_data) == json.dumps(exp_data) and got_errs == exp_errs
    return result(ok, True)


from harness import docgen as DG  # noqa: E402


def _exec_pieces(pa: int, pb: int, pc: int, pd: int, sv: bool, iv: bool, wrap: int) -> bool:
    """
    pre: 0 <= pa < len(DG.PIECES) and pa < pb <= len(DG.PIECES) and pb <= pc <= len(DG.PIECES) and pc <= pd <= len(DG.PIECES) and 0 <= wrap <= 3
    pre: (pb == len(DG.PIECES) or pb < pc or pc == len(DG.PIECES)) and (pc == len(DG.PIECES) or pc < pd or pd == len(DG.PIECES))
    pre: thorough() or pd == len(DG.PIECES)
    pre: shard_of(pa * 5 + pb)
    post: _
    """
    M = DG.mask_of([concrete_int(x, 0, len(DG.PIECES)) for x in (pa, pb, pc, pd)])
    W = concrete_int(wrap, 0, 3)
    variables = {"s": True if sv else False, "i": True if iv else False}
    with untraced():
        text = DG.document(M, W)
        schema = G.build_real_schema()
        doc = parse(text)
        if validate_ast(schema, doc).errors:
            return result(True, False)
        got_data, got_errs, msgs = real_run(schema, text, variables, G.make_data(), None)
        exp_data, exp_errs = ref_run(text, variables, G.make_data(), None, ())
        ok = json.dumps(got_data) == json.dumps(exp_data) and got_errs == exp_errs
    return result(ok, True)


CONDITIONS = [
    Cond(
        name="exec_pieces", fn=_exec_pieces, quick=150, thorough=900, per_path=60, shards_quick=16, shards_thorough=16,
        bound="every ordered subset of size <= 3 (thorough <= 4) of %d selection pieces on one object (aliases of one field with different sub-depths, one named fragment spread plain / @skip / @include / at a deeper level, "
              "inline fragments with and without type condition, both directives on one field, nested fragments) x both values of two Boolean variables x 4 ways of wrapping the selection" % len(DG.PIECES),
        symbolic={"pa..pd": "choice: which pieces (increasing indices, 13 = none)", "sv,iv": "data: variable values", "wrap": "choice"}, assumptions=["as exec_template"],
        witness={"pa": 5, "pb": 6, "pc": 13, "pd": 13, "sv": True, "iv": True, "wrap": 0},
    ),
    Cond(
        name="exec_abstract", fn=_exec_abstract, quick=100, thorough=400, per_path=60, shards_quick=16, shards_thorough=16,
        bound="list of an interface type holding two object types in either order: every non-empty subset of 8 selection pieces (plain field, type-conditioned fragments on each member, on the interface, on another interface, "
              "same-key sub-selections that merge differently per runtime type, aliases), inline or through a named fragment, x failing-resolver sets (quick: 2)",
        symbolic={"mask": "choice: which selection pieces", "reverse": "choice: order of the list items", "fail": "choice", "frag": "choice: named fragment"},
        assumptions=["as exec_template"], witness={"mask": 3, "reverse": False, "fail": 0, "frag": False},
    ),
    Cond(
        name="exec_template", fn=_exec_template, quick=150, thorough=900, per_path=60, shards_quick=16, shards_thorough=20,
        bound="%d valid operation templates over a fixed 10-type schema (fragments, inline fragments, aliases, same-key merges, @skip/@include on variables, interface and union resolution, "
              "lists, enum with internal values, custom scalar, input objects, defaults, mutation, operation name) x %d null placements x %d failing-resolver sets (quick: not both) x %d variable sets x 3 request histories on the same Schema object"
              % (NT, len(G.NULLS), len(G.FAILS), len(VARSETS)),
        symbolic={"t": "choice: template", "nul": "choice: where the data world holds null", "fail": "choice: which resolvers raise ResolverError", "vs": "choice: variable assignment", "hist": "choice: earlier requests"},
        assumptions=["oracle: oracles/ref_exec.py (spec section 6 with the documented local-null rule); data compared with key order, errors as a multiset of (path, location of first field node)",
                     "real side: graphql_blocking on a schema built from the same plain-dict model"],
        witness={"t": 0, "nul": 0, "fail": 0, "vs": 0, "hist": 0},
    ),
]
