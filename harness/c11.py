"""C11 - schemas built from SDL contain exactly what the SDL declares."""
from vf import known  # noqa: F401
from vf.spec import Cond, result, untraced, retraced, shard_of, thorough, concrete_int, pick  # noqa: F401

from py_gql import build_schema
from py_gql.sdl import extend_schema
from py_gql.exc import SchemaError, SDLError, GraphQLSyntaxError
from py_gql.schema import ScalarType
from harness import sdlgen as S

MASKS = (0x3F, 0x00, 0x01, 0x02, 0x04, 0x08, 0x10, 0x20)


def diff(a, b, path=""):
    """first difference between two normal forms (for the replay record)"""
    if type(a) != type(b):
        return "%s: %r != %r" % (path, a, b)
    if isinstance(a, dict):
        for k in sorted(set(a) | set(b), key=str):
            if k not in a or k not in b:
                return "%s.%s: only on one side" % (path, k)
            d = diff(a[k], b[k], path + "." + str(k))
            if d:
                return d
        return ""
    if isinstance(a, (list, tuple)):
        if len(a) != len(b):
            return "%s: length %d != %d (%r vs %r)" % (path, len(a), len(b), a, b)
        for i, (x, y) in enumerate(zip(a, b)):
            d = diff(x, y, "%s[%d]" % (path, i))
            if d:
                return d
        return ""
    return "" if a == b else "%s: %r != %r" % (path, a, b)


def same(snapshot, normal):
    """exact equality of content; type order in the registry is not part of the claim"""
    s = dict(snapshot, types=dict(sorted(snapshot["types"].items())))
    n = dict(normal, types=dict(sorted(normal["types"].items())))
    return diff(s, n) == ""


def _sdl_content(desc: bool, dep: bool, default: int, recursion: int, schema_def: bool, mask: int, mutation: bool, text: int = 0) -> bool:
    """
    pre: 0 <= default < len(S.DEFAULT_KINDS) and 0 <= recursion <= 3 and 0 <= mask < len(MASKS) and 0 <= text < len(S.TEXT_SUFFIXES)
    pre: text == 0 or (desc and dep and mutation and not schema_def and (thorough() or (default <= 1 and recursion == 3)))
    pre: shard_of(default)
    post: _
    """
    opts = dict(text=concrete_int(text, 0, len(S.TEXT_SUFFIXES) - 1), desc=True if desc else False, dep=True if dep else False, default=concrete_int(default, 0, len(S.DEFAULT_KINDS) - 1),
                recursion=concrete_int(recursion, 0, 3), schema_def=True if schema_def else False, present=pick(mask, MASKS), mutation=True if mutation else False)
    with untraced():
        rec = S.base_record(opts)
        sdl = S.render(rec)
        schema = build_schema(sdl)
        ok = same(S.snapshot(schema), S.normal(rec))
    return result(ok, True)


def default_uses_missing_field(rec, base_rec):
    saved = known.ENABLED
    known.ENABLED = True
    try:
        return known.c11_default_uses_extension_field(rec, base_rec)
    finally:
        known.ENABLED = saved


SPLIT_TARGETS = (None, "Query", "A", "Node", "U", "Color", "In", "B", "In2")


def _sdl_layout(target: int, mode: int, order: int, ext_first: bool, ignore: bool, schema_def: bool, rec3: bool, custom_scalar: bool) -> bool:
    """
    pre: 0 <= target < len(SPLIT_TARGETS) and 1 <= mode <= 2 and 0 <= order <= 2
    pre: shard_of(target)
    post: _
    """
    T, M, O = pick(target, SPLIT_TARGETS), concrete_int(mode, 1, 2), pick(order, ("as-is", "reversed", "rotated"))
    EF, IG, SD, R3, CS = (True if ext_first else False), (True if ignore else False), (True if schema_def else False), (True if rec3 else False), (True if custom_scalar else False)
    if T is None and (M != 1 or EF):
        return result(True, False)
    with untraced():
        # default kind: plain object default, or (with the recursive input types) a default with a NESTED object of another input type
        rec = S.base_record(dict(desc=True, dep=True, default=12 if R3 else 10, recursion=3 if R3 else 0, schema_def=SD))
        name = ("RootQ" if SD else "Query") if T == "Query" else T
        split = {name: M} if T else {}
        sdl = S.render(rec, split, O, EF)
        if not IG and known.c11_default_uses_extension_field(rec, S.base_only(rec, split)):
            return result(True, False)
        if IG and default_uses_missing_field(rec, S.base_only(rec, split)):
            # with extensions ignored the default names a field that does not exist: the document is invalid and must be rejected as such
            try:
                build_schema(sdl, ignore_extensions=True)
            except (SDLError, SchemaError):
                return result(True, True)
            return result(False, True)
        kw = {}
        if CS:
            kw["additional_types"] = [ScalarType("Date", serialize=str, parse=str, description="a date")]
        schema = build_schema(sdl, ignore_extensions=IG, **kw)
        expected = S.normal(S.base_only(rec, split) if IG else rec)
        ok = same(S.snapshot(schema), expected)
        if ok and CS:
            ok = schema.types["Date"]._parse is str
    return result(ok, T is not None)


def _sdl_roots(roots: int, order: int, ext_first: bool, ignore: bool, desc: bool) -> bool:
    """
    pre: 0 <= roots <= 4 and 0 <= order <= 2
    post: _
    """
    R, O = concrete_int(roots, 0, 4), pick(order, ("as-is", "reversed", "rotated"))
    EF, IG, DE = (True if ext_first else False), (True if ignore else False), (True if desc else False)
    with untraced():
        rec = S.base_record(dict(desc=DE, dep=True, default=1, roots=R, schema_def=(R == 1)))
        sdl = S.render(rec, {}, O, EF)
        schema = build_schema(sdl, ignore_extensions=IG)
        expected = S.normal(S.base_only(rec, {}) if IG else rec)
        ok = same(S.snapshot(schema), expected)
    return result(ok, R >= 2)


INVALID = (
    ("dup-type", "type Query { a: Int } type A { a: Int } type A { b: Int }"),
    ("dup-directive", "type Query { a: Int } directive @d on FIELD directive @d on QUERY"),
    ("two-schema-defs", "schema { query: Query } schema { query: Query } type Query { a: Int }"),
    ("dup-operation-type", "schema { query: Query query: Query } type Query { a: Int }"),
    ("unknown-type", "type Query { a: Nope }"),
    ("unknown-arg-type", "type Query { a(x: Nope): Int }"),
    ("unknown-interface", "type Query implements Nope { a: Int }"),
    ("unknown-union-member", "type Query { a: U } union U = Nope"),
    ("unknown-root", "schema { query: Nope }"),
    ("extend-unknown", "type Query { a: Int } extend type Nope { b: Int }"),
    ("extend-kind-mismatch", "type Query { a: Int } enum E { X } extend type E { b: Int }"),
    ("extend-dup-field", "type Query { a: Int } extend type Query { a: Int }"),
    ("extend-dup-enum-value", "type Query { a: E } enum E { X } extend enum E { X }"),
    ("extend-dup-member", "type Query { a: U } type A { a: Int } union U = A extend union U = A"),
    ("extend-dup-interface", "interface I { a: Int } type Query implements I { a: Int } extend type Query implements I"),
    ("no-query", "type A { a: Int }"),
    ("input-in-output", "type Query { a: In } input In { f: Int }"),
    ("output-in-input", "type Query { a(x: Query): Int }"),
    ("bad-default", "type Query { a(x: Int = \"s\"): Int }"),
    ("bad-default-enum", "type Query { a(x: E = NOPE): Int } enum E { X }"),
    ("bad-default-object", "type Query { a(x: In = {g: 1}): Int } input In { f: Int! }"),
    ("bad-default-unknown-field", "type Query { a(x: In = {f: 1, zz: 2}): Int } input In { f: Int! }"),
    ("bad-default-null", "type Query { a(i: In): Int } input In { f: Int! = null }"),
    ("empty-object", "type Query"),
    ("missing-interface-field", "interface I { a: Int } type Query implements I { b: Int }"),
    ("union-of-scalar", "type Query { a: U } union U = Int"),
    ("root-not-object", "schema { query: E } enum E { X }"),
    ("dup-field", "type Query { a: Int a: String }"),
    ("dup-arg", "type Query { a(x: Int, x: Int): Int }"),
    ("dup-enum-value", "type Query { a: E } enum E { X X }"),
    ("dup-input-field", "type Query { a(i: In): Int } input In { f: Int f: Int }"),
    ("extend-schema-dup-op", "schema { query: Query } type Query { a: Int } extend schema { query: Query }"),
    ("reserved-name", "type Query { __a: Int }"),
    # (appended) interfaces that are not interface types; arguments of @deprecated that are not strings
    ("implements-scalar", "scalar S type Query implements S { a: Int }"),
    ("implements-object", "type O { a: Int } type Query implements O { a: Int }"),
    ("implements-union-containing-it", "union U = Query type Query implements U { a: Int }"),
    ("implements-input", "input I { a: Int } type Query implements I { a: Int }"),
    ("deprecated-reason-int", "type Query { a: Int @deprecated(reason: 42) }"),
    ("deprecated-reason-list-on-enum-value", "enum E { A @deprecated(reason: [1]) B } type Query { a: E }"),
    ("extend-field-deprecated-reason-enum", "type Query { a: Int } extend type Query { b: Int @deprecated(reason: X) }"),
)


def _sdl_invalid(i: int, ignore: bool) -> bool:
    """
    pre: 0 <= i < len(INVALID)
    post: _
    """
    label, sdl = pick(i, INVALID)
    IG = True if ignore else False
    with untraced():
        try:
            build_schema(sdl, ignore_extensions=IG).validate()        # rejected while building or by the schema validation that every use of the schema starts with
            outcome = "accepted"
        except (SDLError, SchemaError) as e:
            outcome = "rejected"
        # any other exception propagates: 'never with an unrelated exception'
        if label.startswith("extend-") and IG:
            ok = True          # with extensions ignored the base document alone is what counts
        else:
            ok = outcome == "rejected" or known.c11_accepted_invalid(label)
    return result(ok, True)


# ---------------------------------------------------------------- duplicates as a product: member kind x where the two occurrences are written x route
# (kind, base document with a slot %s for members of the base definition, extension block with a slot, the duplicated member, a harmless other member)
DUP_KINDS = (
    ("object-field", "type Query { a: Int %s } ", "extend type Query { %s } ", "d: Int", "o: Int"),
    ("interface-field", "interface I { a: Int %s } type Query implements I { a: Int d: Int a2: Int } ", "extend interface I { %s } ", "d: Int", "a2: Int"),
    ("input-field", "type Query { a(i: In): Int } input In { f: Int %s } ", "extend input In { %s } ", "d: Int", "o: Int"),
    ("enum-value", "type Query { a: E } enum E { X %s } ", "extend enum E { %s } ", "D", "O"),
    ("union-member", "type Query { a: U } type A { a: Int } type D { a: Int } type O { a: Int } union U = A %s ", "extend union U = %s ", "| D", "| O"),
    ("interface-implementation", "interface I { a: Int } interface J { a: Int } interface K { a: Int } type Query implements I %s { a: Int } ", "extend type Query implements %s ", "& J", "& K"),
)
# where the duplicated member is written twice
DUP_PLACES = ("base+base", "base+extension", "two extension blocks", "one extension block twice", "extension + later extension with another member in between")


def dup_document(kind, place):
    _, base, ext, dup, other = DUP_KINDS[kind]
    strip = (lambda m: m.lstrip("|& ")) if kind >= 4 else (lambda m: m)
    join = {4: " | ", 5: " & "}.get(kind, " ")
    if place == 0:
        return base % (dup + " " + dup), ""
    if place == 1:
        return base % dup, ext % strip(dup)
    if place == 2:
        return base % "", ext % strip(dup) + ext % strip(dup)
    if place == 3:
        return base % "", ext % (strip(dup) + join + strip(dup))
    return base % "", ext % strip(dup) + ext % strip(other) + ext % strip(dup)


def _sdl_duplicates(kind: int, place: int, route: int) -> bool:
    """
    pre: 0 <= kind < len(DUP_KINDS) and 0 <= place < len(DUP_PLACES) and 0 <= route <= 2
    post: _
    """
    K, P, R = concrete_int(kind, 0, len(DUP_KINDS) - 1), concrete_int(place, 0, len(DUP_PLACES) - 1), concrete_int(route, 0, 2)
    with untraced():
        base, exts = dup_document(K, P)
        if R >= 1 and not exts:
            return result(True, False)
        try:
            if R == 0:
                build_schema(base + exts).validate()
            elif R == 1:
                extend_schema(build_schema(base), exts).validate()              # the base may itself be invalid (place 0 is excluded above)
            else:
                extend_schema(build_schema(base), exts, strict=False).validate()
            outcome = "accepted"
        except (SDLError, SchemaError):
            outcome = "rejected"
        # any other exception propagates: 'never with an unrelated exception'
        # control: the same document with the duplicate replaced by another member is accepted
        _, b, e, dup, other = DUP_KINDS[K]
        if P == 2:
            strip = (lambda m: m.lstrip("|& "))
            build_schema(b % "" + e % strip(dup) + e % strip(other)).validate()
    return result(outcome == "rejected", True)


def _sdl_text(sdl: str) -> bool:
    """concrete named cases (not a solver result): the document builds and validates"""
    schema = build_schema(sdl)
    schema.validate()
    return result(True, True)


def _text_cases():
    return [
        {"sdl": "input In { f: Int h: [In!] } type Query { e(i: In): Int }"},
        {"sdl": "input In { f: Int o: In2 } input In2 { back: In } type Query { e(i: In): Int } extend input In { g: Int }"},
        {"sdl": "type Query { a: A } type A { a: A q: Query } extend type A { b: [A!]! }"},
    ]


# ---- types handed in as objects (additional_types) are inputs, not scratch space: building twice from the same objects gives the same schema
REUSE_EXTENSIONS = ("extend enum Shade { BLUE }", "extend type Extra { b: Int }", "extend interface Thing { more: Int }", "extend union Either = Other",
                    "extend input Basket { later: Int = 3 }")
REUSE_BASE = "type Query { e(c: Shade, basket: Basket): Extra thing: Thing either: Either }\ntype Other { o: Int }\n"


def reuse_objects():
    from py_gql.schema import EnumType, Field, InputField, InputObjectType, Int, InterfaceType, ObjectType, UnionType
    extra = ObjectType("Extra", [Field("a", Int)])
    return [EnumType("Shade", ["RED"]), extra, InterfaceType("Thing", [Field("id", Int)]), UnionType("Either", [extra]), InputObjectType("Basket", [InputField("n", Int)])]


def members_of(t):
    from py_gql.schema import EnumType, UnionType
    attr = "values" if isinstance(t, EnumType) else ("types" if isinstance(t, UnionType) else "fields")
    return [m.name for m in getattr(t, attr)]


def _sdl_reuse(mask: int, second_ignores: bool, third: bool) -> bool:
    """
    pre: 1 <= mask < 32
    post: _
    """
    M = concrete_int(mask, 1, 31)
    IG, TH = (True if second_ignores else False), (True if third else False)
    with untraced():
        sdl = REUSE_BASE + "\n".join(e for i, e in enumerate(REUSE_EXTENSIONS) if M >> i & 1)
        objs = reuse_objects()
        before = [members_of(o) for o in objs]
        fresh = S.snapshot(build_schema(sdl, additional_types=reuse_objects()))
        fresh_ignored = S.snapshot(build_schema(sdl, additional_types=reuse_objects(), ignore_extensions=True))
        problem = ""
        try:
            first = S.snapshot(build_schema(sdl, additional_types=objs))
            second = S.snapshot(build_schema(sdl, additional_types=objs, ignore_extensions=IG))
            third_ = S.snapshot(build_schema(sdl, additional_types=objs)) if TH else None
        except Exception as e:  # noqa
            problem = "building again from the same type objects raised %r" % (e,)
        if not problem and first != fresh:
            problem = "first build differs from a build with fresh objects"
        if not problem and second != (fresh_ignored if IG else fresh):
            problem = "second build from the same objects differs"
        if not problem and TH and third_ != fresh:
            problem = "third build from the same objects differs"
        if not problem and [members_of(o) for o in objs] != before:
            problem = "the type objects passed in were modified"
    return result(problem == "", True)


# ------------------------------------------------------------------ the same declarations delivered in two steps: build_schema(D1), then extend_schema(.., D2)
from py_gql.sdl import extend_schema  # noqa: E402

TWO_STEP_TARGETS = SPLIT_TARGETS + ("Impl",)
MOVED = ((), ("Impl",), ("Orphan",), ("Impl", "Orphan"), ("Date",), ("@tag",))
D2_ORDERS = ("extensions last", "extensions first", "first extension block, definitions reversed, other blocks", "extensions in the middle")   # extension blocks keep their relative order: it is content


def _sdl_two_step(target: int, mode: int, moved: int, d2order: int, strict: bool, rec3: bool) -> bool:
    """
    pre: 0 <= target < len(TWO_STEP_TARGETS) and 1 <= mode <= 2 and 0 <= moved < len(MOVED) and 0 <= d2order < len(D2_ORDERS)
    pre: shard_of(target * 2 + mode)
    post: _
    """
    T, M = pick(target, TWO_STEP_TARGETS), concrete_int(mode, 1, 2)
    MV, DO = pick(moved, MOVED), concrete_int(d2order, 0, len(D2_ORDERS) - 1)
    ST, R3 = (True if strict else False), (True if rec3 else False)
    with untraced():
        rec = S.base_record(dict(desc=True, dep=True, default=12 if R3 else 10, recursion=3 if R3 else 0))
        split = {T: M} if T else {}
        defs, exts = S.render(rec, split, parts=True)
        if any(m not in [n for n, _ in defs] for m in MV):
            return result(True, False)
        if "Date" in MV or "@tag" in MV:
            # a moved type / directive that the first document refers to would make the first document invalid on its own
            first_text = "\n".join(t for n, t in defs if n not in MV)
            if ("Date" in MV and "Date" in first_text) or ("@tag" in MV and "@tag" in first_text):
                return result(True, False)
        d1 = "\n\n".join(t for n, t in defs if n not in MV)
        later = [t for n, t in defs if n in MV]
        if not later and not exts:
            return result(True, False)
        d2_parts = {0: later + exts, 1: exts + later, 2: exts[:1] + list(reversed(later)) + exts[1:], 3: later[:1] + exts + later[1:]}[DO]
        d2 = "\n\n".join(d2_parts)
        try:
            first = build_schema(d1)
        except (SDLError, SchemaError):
            return result(True, False)          # the first document is not valid on its own (e.g. a default naming a field that only the extension declares)
        before = S.snapshot(first)
        try:
            second = extend_schema(first, d2, strict=ST)
        except (SDLError, SchemaError) as e:
            if known.c11_default_uses_extension_field(rec, S.base_only(rec, split)):
                return result(True, False)
            return result(False, True)
        ok = same(S.snapshot(second), S.normal(rec)) and same(S.snapshot(first), before)
    return result(ok, bool(later) and bool(exts))


CONDITIONS = [
    Cond(
        name="sdl_duplicates", fn=_sdl_duplicates, quick=60, thorough=60,
        bound="a member declared twice, as a product: 6 member kinds (object / interface / input field, enum value, union member, implemented interface) x 5 placements of the two occurrences (both in the "
              "definition, definition + extension, two extension blocks, twice in one extension block, two extension blocks with another one in between) x 3 routes (one document, build_schema + extend_schema "
              "strict / not strict): rejected with SDLError / SchemaError while building or validating, never accepted, never another exception; control: two extension blocks adding DIFFERENT members are accepted",
        symbolic={"kind,place,route": "choice"}, witness={"kind": 3, "place": 2, "route": 0},
    ),
    Cond(
        name="sdl_two_step", fn=_sdl_two_step, quick=90, thorough=300, per_path=60, shards_quick=16, shards_thorough=16,
        bound="the generator's declarations delivered in two steps - build_schema(first document) then extend_schema(schema, second document): which definitions come later (none, a type only reachable as an implementation, an "
              "unreferenced type, both, a custom scalar, a directive definition) x which type is split into extension blocks (10 targets incl. a type that is itself defined in the second document) x split mode x 4 orders of the second "
              "document (extension blocks before / after / between / reversed w.r.t. the definitions they extend) x strict on/off x recursive inputs: the result holds exactly the declared content, the first schema is unchanged",
        symbolic={"target,mode,moved,d2order,strict,rec3": "choice"}, assumptions=["oracle: the generator's declared-content record (as sdl_content)"],
        witness={"target": 9, "mode": 1, "moved": 1, "d2order": 1, "strict": True, "rec3": False},
    ),
    Cond(name="sdl_text", fn=_sdl_text, kind="concrete", cases=_text_cases, bound="fixed SDL texts (named defects); NOT a solver result"),
    Cond(
        name="sdl_reuse", fn=_sdl_reuse, quick=60, thorough=120,
        bound="types given as objects through additional_types (enum, object, interface, union, input object) x every non-empty subset of 5 extensions targeting them x a second build from the SAME objects (with or without "
              "ignore_extensions) x a third: every build equals the one from fresh objects, the objects handed in keep their members",
        symbolic={"mask": "choice: which extensions", "second_ignores,third": "choice"}, witness={"mask": 1, "second_ignores": True, "third": True},
    ),
    Cond(
        name="sdl_content", fn=_sdl_content, quick=150, thorough=400, per_path=60, shards_quick=12, shards_thorough=12,
        bound="generated type-system documents: descriptions on/off, deprecations on/off, %d default-value kinds (int boundaries, null, string with escapes, bool, float, enum, list, coerced single item, input object, ID), "
              "4 recursion patterns (none / self / mutual for object and input types), schema definition or conventional names, 8 presence masks of interface/union/enum/input/scalar/directive, mutation on/off, 9 texts appended to every description and deprecation reason (escapes, second line, astral, trailing backslash / quote, U+2028)" % len(S.DEFAULT_KINDS),
        symbolic={"desc,dep,schema_def,mutation": "choice", "default": "choice: default value kind", "recursion": "choice", "mask": "choice: which kinds are present", "text": "choice: description / reason text"},
        assumptions=["oracle: the generator's declared-content record (harness/sdlgen.py normal()) vs the built schema read back through public attributes (snapshot()), exact equality incl. member order"],
        witness={"desc": True, "dep": True, "default": 1, "recursion": 0, "schema_def": False, "mask": 0, "mutation": True, "text": 0},
    ),
    Cond(
        name="sdl_layout", fn=_sdl_layout, quick=150, thorough=400, per_path=60, shards_quick=9, shards_thorough=9,
        bound="full-content document: one type's members split over 1 or 2 extend blocks (9 targets incl. none and an input type only reached through another input type's default) x 3 definition orders x extensions before/after definitions x ignore_extensions x schema definition x recursion x additional_types",
        symbolic={"target,mode": "choice: how members are split across extend blocks", "order,ext_first": "choice: document order", "ignore,schema_def,rec3,custom_scalar": "choice"},
        witness={"target": 2, "mode": 1, "order": 0, "ext_first": False, "ignore": False, "schema_def": False, "rec3": False, "custom_scalar": False},
    ),
    Cond(
        name="sdl_roots", fn=_sdl_roots, quick=60, thorough=120, per_path=60,
        bound="root operation types: conventional names without a schema definition / schema definition with custom names / with SWAPPED conventional names (query: Mutation, mutation: Query) / listing only the query root while an ordinary type "
              "is named Mutation / the same plus `extend schema { mutation: Mutation }` x 3 definition orders x extension placement x ignore_extensions x descriptions",
        symbolic={"roots": "choice: root naming variant", "order,ext_first,ignore,desc": "choice"}, witness={"roots": 2, "order": 0, "ext_first": False, "ignore": False, "desc": True},
    ),
    Cond(
        name="sdl_invalid", fn=_sdl_invalid, quick=60, thorough=60,
        bound="%d labelled invalid documents x ignore_extensions: rejected with SDLError / SchemaError subclasses, never another exception" % len(INVALID),
        symbolic={"i": "choice", "ignore": "choice"}, witness={"i": 0, "ignore": False},
    ),
]
