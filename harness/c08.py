"""C08 - results do not depend on runtime, executor variant or completion order."""
from vf import known  # noqa: F401
from vf.spec import Cond, result, untraced, retraced, shard_of, thorough, concrete_int, pick  # noqa: F401

from py_gql.execution import BlockingExecutor, Executor
from harness import execworld as W

CONFIGS = ("generic-executor/blocking-runtime", "thread-pool (stub pool)", "asyncio coroutines (DetLoop)", "asyncio plain functions")
NT = len(W.TEMPLATES) if thorough() else 6       # the two widest templates (7-8 in-flight tasks) are thorough-only


def kinds_for(ka, ko, kx, ky=0):
    return {"a": ka, "m3": ka, "o": ko, "l": ko, "n": ko, "m1": ko, "m2": ko, "x": kx, "y": ky, "dm": 2 if kx == 2 else 1}      # the deferred value of the default-resolved method fails with ResolverError when x does


def make_chooser(sched):
    def choose(step, n):
        with retraced():
            if step >= len(sched):
                return None
            s = sched[step]
            if not (s < n):
                return None
            return concrete_int(s, 0, n - 1)
    return choose


def run_config(cfg, kinds, query, sched, nn_null, **kw):
    if cfg == 0:
        return W.run_blocking(kinds, query, Executor, nn_null, **kw)
    if cfg == 1:
        return W.run_thread(kinds, query, make_chooser(sched), nn_null, **kw)
    if cfg == 2:
        return W.run_async(kinds, query, make_chooser(sched), True, nn_null, **kw)
    return W.run_async(kinds, query, make_chooser(sched), False, nn_null, **kw)


def agree(base, got, multi_unexpected):
    if got[0] in ("pending", "not-a-future"):
        return False
    if base[0] == "raised":
        # an unexpected resolver exception must surface as the failure of the overall result
        return got[0] == "raised" and (got[1] == base[1]) and (multi_unexpected or got[2] == base[2])
    return got == base


def _schedules(t: int, ka: int, ko: int, kx: int, nn: bool, cfg: int, s0: int, s1: int, s2: int, s3: int, s4: int, s5: int, s6: int = 0, s7: int = 0, shared: bool = False, ex: int = 0, nested: bool = False) -> bool:
    """
    pre: not nested or (not shared and ex == 0 and (ka == 1 or ko == 1 or kx == 1) and (thorough() or (t <= 2 and not nn and ka == 1 and ko == 1 and kx == 1)))
    pre: t != 10 or thorough() or (ka == 1 and ko == 1 and kx <= 2 and not shared and not nested)
    pre: 0 <= ex < 7 and (ex == 0 or ((ka == 3 or ko == 3 or kx == 3) and not shared))
    pre: not shared or (ka == 1 and ko == 1 and kx == 1) or (thorough() and t < 6)
    pre: 0 <= t < len(W.TEMPLATES) and (t < NT or t >= 8) and 0 <= ka <= 3 and 0 <= ko <= 3 and 0 <= kx <= 3 and 0 <= cfg <= 3
    pre: 0 <= s0 <= 7 and 0 <= s1 <= 6 and 0 <= s2 <= 5 and 0 <= s3 <= 4 and 0 <= s4 <= 3 and 0 <= s5 <= 2 and 0 <= s6 <= 1 and s7 == 0
    pre: shard_of(t * 4 + cfg + ex + s0 * 5)
    pre: world_in_tier(ka, ko, kx, t)
    post: _
    """
    T = concrete_int(t, 0, len(W.TEMPLATES) - 1)
    KA, KO, KX, C = concrete_int(ka, 0, 3), concrete_int(ko, 0, 3), concrete_int(kx, 0, 3), concrete_int(cfg, 0, 3)
    NNULL = True if nn else False
    SH = True if shared else False
    NS = True if nested else False
    EX = concrete_int(ex, 0, 6)
    name, query = W.TEMPLATES[T]
    if NNULL and "nn" not in query:
        return result(True, False)
    if C == 0 and (s0 != 0 or s1 != 0 or s2 != 0 or s3 != 0 or s4 != 0 or s5 != 0 or s6 != 0):
        return result(True, False)           # no schedule dimension on the blocking runtime
    with untraced():
        kinds = kinds_for(KA, KO, KX, 1 if T >= 6 else 0)        # the wide templates also defer y
        W.UNEXPECTED_EXC = EX          # the class of the 'unexpected' exception: builtin or one of the library's own non-resolver errors
        try:
            base, _ = W.run_blocking(kinds, query, BlockingExecutor, NNULL)
        except Exception:
            W.UNEXPECTED_EXC = 0
            raise
        W.SHARED_RESOLVER = SH       # one function object for every custom field (same baseline)
        W.NESTED_SUBMIT = NS         # custom-value resolvers hand their work to the runtime again and return what submit() returns (same baseline)
        try:
            got, w = run_config(C, kinds, query, [s0, s1, s2, s3, s4, s5, s6, s7], NNULL)
        finally:
            W.SHARED_RESOLVER = False
            W.NESTED_SUBMIT = False
            W.UNEXPECTED_EXC = 0
        if got[0] == "pruned":
            return result(True, False)
        # schedule entries beyond the number of steps actually taken must be 0 (canonical form, avoids duplicate paths)
        steps = getattr(w, "steps", 0)
    rest = [s0, s1, s2, s3, s4, s5, s6, s7][steps:]
    for r in rest:
        if r != 0:
            return result(True, False)
    with untraced():
        multi = [KA, KO, KX].count(W.UNEXPECTED) > 1
        ok = agree(base, got, multi)
    return result(ok, steps >= 2 or C == 0)


def world_in_tier(ka, ko, kx, t) -> bool:
    if thorough():
        # the widest templates: all-custom worlds with at most one failing group (every order of 7-8 tasks is already 5040-40320 paths)
        if t >= 6:
            return (ka == 1 or ka >= 2) and ko == 1 and (kx == 1 or (kx >= 2 and ka == 1))
        return True
    # quick tier: worlds where at most one field deviates from 'custom value', plus the all-default world
    vals = [ka, ko, kx]
    if ka == 0 and ko == 0 and kx == 0:
        return True
    return sum(1 for v in vals if v != 1) <= 1


CONDITIONS = [
    Cond(
        name="schedules", fn=_schedules, quick=330, thorough=1200, per_path=60, shards_quick=16, shards_thorough=32,
        bound="7 operation templates (flat, nested, list, abstract, same-key merge, mutation, a scalar whose serialize raises ResolverError while the value is completed, a list with falsy non-null entries) x resolver kind in {default, custom value, ResolverError, unexpected exception} for 3 field groups x class of the unexpected "
              "exception (ValueError, KeyError, and the library's own UnknownEnumValue, CoercionError, GraphQLError, ExecutionError, ScalarSerializationError) "
              "(quick: at most one group deviates from 'custom value') x Int! null or not x 4 executor/runtime configurations x separate resolver functions or ONE function object shared by all custom fields (quick: shared only in the all-custom world) x custom resolvers computing directly or handing their work to the runtime again through info.runtime.submit (quick: 3 templates) x EVERY completion order of the in-flight tasks (<= 6 tasks)",
        bound_thorough="same with all 64 kind assignments, plus two wide templates with 7-8 in-flight tasks (every order) for all-custom worlds with at most one failing group",
        symbolic={"t": "choice: template", "ka,ko,kx": "choice: resolver kinds", "nn": "choice: Int! field resolves to null", "cfg": "choice: configuration",
                  "s0..s5": "choice: which pending task completes next at each step", "shared": "choice: one resolver function for all fields", "ex": "choice: exception class"},
        assumptions=["the stub pool is a ONE-worker pool: a task that blocks on Future.result() of a task still queued on the same pool can never finish (PoolStarvation)", "ThreadPoolRuntime._inner replaced by a recording stub pool; tasks run on the harness thread in the solver-chosen order (future callbacks atomic)",
                     "asyncio: DetLoop.time() == 0.0; deferred resolvers await harness-completed futures; the loop's own ready-queue order is the real one",
                     "baseline = BlockingExecutor on the blocking runtime for the same world"],
        witness={"t": 1, "ka": 1, "ko": 1, "kx": 1, "nn": False, "cfg": 1, "s0": 0, "s1": 0, "s2": 0, "s3": 0, "s4": 0, "s5": 0, "s6": 0, "s7": 0, "shared": False, "ex": 0, "nested": False},
    ),
]
