"""C17 - subscriptions map each source event to one isolated result, in order."""
import asyncio

from vf import known  # noqa: F401
from vf.spec import Cond, result, untraced, retraced, shard_of, thorough, concrete_int, pick  # noqa: F401

from py_gql.exc import ExecutionError, ResolverError
from py_gql.execution import subscribe
from py_gql.execution.runtime import AsyncIORuntime, BlockingRuntime
from py_gql.lang import parse
from py_gql.schema import Field, Int, ObjectType, Schema, NonNullType
from harness.execworld import DetLoop

OUT = ("value", "null", "error")


class Source:
    """stub source stream: async iterator over `events`, yielding control `ticks[i]` times before event i"""

    def __init__(self, events, ticks):
        self.events, self.ticks = list(events), list(ticks)
        self.i = 0
        self.anext_calls = 0

    def __aiter__(self):
        return self

    async def __anext__(self):
        self.anext_calls += 1
        if self.i >= len(self.events):
            raise StopAsyncIteration
        for _ in range(self.ticks[self.i] if self.i < len(self.ticks) else 0):
            await asyncio.sleep(0)
        e = self.events[self.i]
        self.i += 1
        return e


def make_schema(source_holder, async_resolver, with_sub_resolver=True, async_fields=False):
    def field_resolver(name):
        def r(root, ctx, info):
            v = root["counter"][name] if "counter" in root else root[name]
            if v == "error":
                raise ResolverError("event %s field %s failed" % (root["k"] if "k" in root else root.get("k"), name))
            return v

        async def ar(root, ctx, info):
            await asyncio.sleep(0)
            return r(root, ctx, info)
        return ar if async_fields else r

    ev = ObjectType("Ev", [Field("v", Int, resolver=field_resolver("v")), Field("w", Int, resolver=field_resolver("w")), Field("k", Int)])

    def sub(root, ctx, info):
        return source_holder[0]

    async def asub(root, ctx, info):
        await asyncio.sleep(0)
        return source_holder[0]

    sub_type = ObjectType("Subscription", [
        Field("counter", ev, subscription_resolver=((asub if async_resolver else sub) if with_sub_resolver else None)),
        Field("other", ev, subscription_resolver=sub),
    ])
    q = ObjectType("Query", [Field("a", Int)])
    return Schema(q, subscription_type=sub_type)


def event_for(k, ov, ow):
    def val(o, base):
        return base if o == "value" else (None if o == "null" else "error")
    return {"counter": {"v": val(ov, 100 + k), "w": val(ow, 200 + k), "k": k}, "k": k}


def expected_for(k, ov, ow):
    def val(o, base):
        return base if o == "value" else None
    data = {"counter": {"v": val(ov, 100 + k), "w": val(ow, 200 + k), "k": k}}
    errs = sorted("event %d field %s failed" % (k, n) for n, o in (("v", ov), ("w", ow)) if o == "error")
    return data, errs


def collect(schema, doc_text, loop):
    async def main():
        rt = AsyncIORuntime(loop=loop, execute_blocking_functions_in_thread=False)
        stream = await subscribe(schema, parse(doc_text), runtime=rt)
        out = []
        async for r in stream:
            out.append((r.response().get("data"), sorted(str(e.message) for e in r.errors)))
        return out
    return loop.run_until_complete(main())


def _stream(n: int, o0: int, o1: int, o2: int, o3: int, t0: int, t1: int, t2: int, t3: int, asyncres: bool, asyncfields: bool, alias: int = 0) -> bool:
    """
    pre: 0 <= alias <= 5 and (alias == 0 or thorough() or (t0 == 0 and t1 == 0 and not asyncfields))
    pre: 0 <= n <= N_EVENTS
    pre: 0 <= o0 < 9 and 0 <= o1 < 9 and 0 <= o2 < 9 and 0 <= o3 < 9
    pre: 0 <= t0 <= 2 and 0 <= t1 <= 2 and 0 <= t2 <= 1 and 0 <= t3 <= 1
    pre: t0 <= 1 and t1 <= 1 and t2 == 0 and t3 == 0
    pre: thorough() or two_ticks_only_small(n, t0, t1)
    pre: shard_of(o0 + 9 * n)
    post: _
    """
    N = concrete_int(n, 0, N_EVENTS)
    raw_o, raw_t = (o0, o1, o2, o3), (t0, t1, t2, t3)
    # canonical form: unused event slots carry 0 (one symbolic comparison each, no enumeration)
    for i in range(N, 4):
        if raw_o[i] != 0 or raw_t[i] != 0:
            return result(True, False)
    os_ = [concrete_int(raw_o[i], 0, 8) for i in range(N)]
    ts = [concrete_int(raw_t[i], 0, 2) for i in range(N)]
    AR, AF = (True if asyncres else False), (True if asyncfields else False)
    ALIAS = concrete_int(alias, 0, 5)
    with untraced():
        outs = [(OUT[o // 3], OUT[o % 3]) for o in os_[:N]]
        events = [event_for(k, ov, ow) for k, (ov, ow) in enumerate(outs)]
        src = Source(events, ts)
        holder = [src]
        schema = make_schema(holder, AR, async_fields=AF)
        loop = DetLoop()
        try:
            # 3-5: the ONE root field occurs several times with different sub-selections (written twice, through two fragments, directly and in an inline fragment): they merge
            got = collect(schema, ("subscription { counter { v w k } }", "subscription { al: counter { v w k } }", "subscription { other: counter { v w k } }",
                                   "subscription { counter { v } counter { w k } }",
                                   "subscription { ...A ...B } fragment A on Subscription { counter { v k } } fragment B on Subscription { counter { w } }",
                                   "subscription { counter { k } ... on Subscription { counter { v w } } }")[ALIAS], loop)
            key = ("counter", "al", "other", "counter", "counter", "counter")[ALIAS]
            got = [({"counter": d[key]} if isinstance(d, dict) and key in d else d, e) for d, e in got]
        finally:
            loop.close()
        exp = [expected_for(k, ov, ow) for k, (ov, ow) in enumerate(outs)]
        ok = got == exp and src.anext_calls == N + 1
    return result(ok, N >= 2)


# ---- an event whose execution ABORTS (a resolver raising something that is not a field error): that pull raises, the stream goes on with the next event
def _aborted_events(n: int, a0: bool, a1: bool, a2: bool, a3: bool, asyncres: bool, asyncfields: bool, tick: bool) -> bool:
    """
    pre: 1 <= n <= 4
    post: _
    """
    N = concrete_int(n, 1, 4)
    flags = [True if a else False for a in (a0, a1, a2, a3)]
    for i in range(N, 4):
        if flags[i]:
            return result(True, False)
    AR, AF, TK = (True if asyncres else False), (True if asyncfields else False), (True if tick else False)
    with untraced():
        events = [{"counter": {"v": ("abort" if flags[k] else 100 + k), "w": 200 + k, "k": k}, "k": k} for k in range(N)]
        src = Source(events, [1 if TK else 0] * N)
        holder = [src]

        def v_resolver(root, ctx, info):
            v = root["v"]
            if v == "abort":
                raise ValueError("event %s cannot be processed" % root["k"])
            return v

        async def av_resolver(root, ctx, info):
            await asyncio.sleep(0)
            return v_resolver(root, ctx, info)
        ev = ObjectType("Ev", [Field("v", Int, resolver=(av_resolver if AF else v_resolver)), Field("w", Int), Field("k", Int)])

        def sub(root, ctx, info):
            return holder[0]

        async def asub(root, ctx, info):
            await asyncio.sleep(0)
            return holder[0]
        schema = Schema(ObjectType("Query", [Field("a", Int)]), subscription_type=ObjectType("Subscription", [Field("counter", ev, subscription_resolver=(asub if AR else sub))]))
        loop = DetLoop()

        async def main():
            rt = AsyncIORuntime(loop=loop, execute_blocking_functions_in_thread=False)
            stream = await subscribe(schema, parse("subscription { counter { v w k } }"), runtime=rt)
            it = stream.__aiter__()
            out = []
            for _ in range(N + 3):
                try:
                    r = await it.__anext__()
                except StopAsyncIteration:
                    out.append("end")
                    break
                except ValueError as e:
                    out.append("raised %s" % e)
                else:
                    out.append((r.response().get("data"), sorted(str(e.message) for e in r.errors)))
            return out
        try:
            got = loop.run_until_complete(main())
        finally:
            loop.close()
        exp = [("raised event %d cannot be processed" % k) if flags[k] else ({"counter": {"v": 100 + k, "w": 200 + k, "k": k}}, []) for k in range(N)] + ["end"]
        ok = got == exp and src.anext_calls == N + 1
    return result(ok, any(flags[:N]) and N >= 2)


N_EVENTS = 4 if thorough() else 3


def two_ticks_only_small(n, t0, t1) -> bool:
    return True


# ---- the event itself is the root value, whatever it is (falsy values, None, containers) and whatever the initial value was
EVENT_VALUES = (0, "", False, {}, [], None, 0.0, 1, "x", {"echo": "own"}, [0])
INITIALS = (None, {"echo": "INITIAL", "n": 99}, 5)


def echo_schema(source_holder, async_resolver):
    from py_gql.schema import String

    def echo(root, ctx, info, **kw):
        return "root=%r" % (root,) + ("" if kw == {"step": 1} else " args=%r" % (sorted(kw.items()),))

    def plain_n(root, ctx, info):
        return root.get("n") if isinstance(root, dict) else None

    def sub(root, ctx, info, **kw):
        source_holder.append(("initial", root) if kw == {"step": 1} else ("initial", root, sorted(kw.items())))
        return source_holder[0]

    async def asub(root, ctx, info, **kw):
        await asyncio.sleep(0)
        return sub(root, ctx, info, **kw)
    from py_gql.schema import Argument
    sub_type = ObjectType("Subscription", [Field("echo", String, args=[Argument("step", Int, default_value=1), Argument("tag", String)], resolver=echo,
                                                 subscription_resolver=(asub if async_resolver else sub))])
    return Schema(ObjectType("Query", [Field("a", Int)]), subscription_type=sub_type)


def _event_values(n: int, e0: int, e1: int, e2: int, init: int, asyncres: bool, withargs: bool = False) -> bool:
    """
    pre: 0 <= n <= 3 and 0 <= e0 < len(EVENT_VALUES) and 0 <= e1 < len(EVENT_VALUES) and 0 <= e2 < len(EVENT_VALUES) and 0 <= init < len(INITIALS)
    pre: shard_of(e0 + n)
    post: _
    """
    N = concrete_int(n, 0, 3)
    raw = (e0, e1, e2)
    for i in range(N, 3):
        if raw[i] != 0:
            return result(True, False)
    evs = [pick(raw[i], EVENT_VALUES) for i in range(N)]
    INIT, AR = pick(init, INITIALS), (True if asyncres else False)
    WA = True if withargs else False
    with untraced():
        src = Source(evs, [0] * N)
        holder = [src]
        schema = echo_schema(holder, AR)
        loop = DetLoop()
        try:
            async def main():
                rt = AsyncIORuntime(loop=loop, execute_blocking_functions_in_thread=False)
                if WA:
                    stream = await subscribe(schema, parse("subscription ($t: String) { echo(step: 2, tag: $t) }"), variables={"t": "T"}, runtime=rt, initial_value=INIT)
                else:
                    stream = await subscribe(schema, parse("subscription { echo }"), runtime=rt, initial_value=INIT)
                return [(r.response().get("data"), [str(e) for e in r.errors]) async for r in stream]
            got = loop.run_until_complete(main())
        finally:
            loop.close()
        args = [("step", 2), ("tag", "T")]
        exp = [({"echo": "root=%r" % (e,) + (" args=%r" % (args,) if WA else "")}, []) for e in evs]
        # the subscription resolver (CreateSourceEventStream) is the one that sees the initial value, exactly once, with the field's coerced arguments
        ok = got == exp and src.anext_calls == N + 1 and holder[1:] == [("initial", INIT, args) if WA else ("initial", INIT)]
    return result(ok, N >= 1)


# (label, document, the root field has a subscription resolver, runtime supports streams, refused)
REFUSALS = (
    ("two-root-fields", "subscription { counter { v } other { v } }", True, True, True),
    ("no-subscription-resolver", "subscription { counter { v } }", False, True, True),
    ("query-operation", "{ a }", True, True, True),
    ("blocking-runtime", "subscription { counter { v } }", True, False, True),
    ("two-root-fields-through-a-named-fragment", "subscription { ...F } fragment F on Subscription { counter { v } other { v } }", True, True, True),
    ("two-root-fields-through-an-inline-fragment", "subscription { ... on Subscription { counter { v } other { v } } }", True, True, True),
    ("two-root-fields-one-direct-one-in-a-fragment", "subscription { counter { v } ... { other { v } } }", True, True, True),
    ("two-aliases-of-one-field", "subscription { a: counter { v } b: counter { v } }", True, True, True),
    ("two-root-fields-second-operation", "query Q { a } subscription S { counter { v } other { w } }", True, True, True),
    ("mutation-like-unknown-type", "mutation { a }", True, True, True),
    # controls: one response key however it is spelled is ONE root field and must be served
    ("control-single", "subscription { counter { v } }", True, True, False),
    ("control-same-field-twice", "subscription { counter { v } counter { w } }", True, True, False),
    ("control-through-fragments", "subscription { ...F ... { counter { w } } } fragment F on Subscription { counter { v } }", True, True, False),
    ("control-skipped-second-field", "subscription { counter { v } other @skip(if: true) { v } }", True, True, False),
    ("control-aliased", "subscription { counter: counter { v } }", True, True, False),
)


def _refusals(r: int, asyncres: bool) -> bool:
    """
    pre: 0 <= r < len(REFUSALS)
    post: _
    """
    label, doc, with_res, streams, refused_expected = pick(r, REFUSALS)
    AR = True if asyncres else False
    with untraced():
        src = Source([event_for(0, "value", "value")], [0])
        holder = [src]
        loop = DetLoop()
        try:
            rt = AsyncIORuntime(loop=loop, execute_blocking_functions_in_thread=False)
            schema = make_schema(holder, AR, with_sub_resolver=with_res)
            runtime = rt if streams else BlockingRuntime()
            refused, results = None, None
            kw = {"operation_name": "S"} if "subscription S" in doc else {}
            try:
                out = subscribe(schema, parse(doc), runtime=runtime, **kw)
                if asyncio.iscoroutine(out) or asyncio.isfuture(out):
                    async def main():
                        s = await out
                        return [x.response().get("data") async for x in s]
                    results = loop.run_until_complete(main())
            except (RuntimeError, ExecutionError) as e:
                refused = type(e).__name__
            if refused_expected:
                ok = refused is not None and src.anext_calls == 0
            else:
                ok = refused is None and results is not None and len(results) == 1 and set(results[0]) == {"counter"} and src.anext_calls == 2
        finally:
            loop.close()
    return result(ok, True)


CONDITIONS = [
    Cond(
        name="aborted_events", fn=_aborted_events, quick=100, thorough=100,
        bound="1..4 source events x every subset of events whose execution ABORTS (a resolver raising ValueError - not a field error) x sync / async subscription resolver x sync / async field resolvers x "
              "a delay before each event: the pull for an aborted event raises that exception, every other event still yields exactly its own result in order, the stream ends when the source ends "
              "and the source is pulled exactly n+1 times",
        symbolic={"n,a0..a3,asyncres,asyncfields,tick": "choice"}, assumptions=["DetLoop; the consumer calls __anext__ again after an exception"],
        witness={"n": 3, "a0": False, "a1": True, "a2": False, "a3": False, "asyncres": False, "asyncfields": False, "tick": False},
    ),
    Cond(
        name="stream", fn=_stream, quick=150, thorough=900, per_path=60, shards_quick=16, shards_thorough=32,
        bound="every source stream of 0..3 (thorough 4) events, each event with 3 x 3 outcomes (value / null / ResolverError) for two sub-fields, 0..1 loop ticks before each of the first two events, "
              "sync or async subscription resolver, sync or async field resolvers, the root field plain / aliased / aliased with the NAME of another subscription field / occurring several times with different sub-selections (written twice, through two fragments, directly and in an inline fragment)",
        symbolic={"n": "choice: number of events", "o0..o3": "choice: per-event outcomes", "t0..t3": "choice: delays", "asyncres,asyncfields": "choice", "alias": "choice: alias of the root field"},
        assumptions=["DetLoop (time() == 0.0), real asyncio scheduling otherwise; stub source stream counts __anext__ calls",
                     "oracle: k-th result = selection executed with event k as root; errors of event k only"],
        witness={"n": 2, "o0": 0, "o1": 2, "o2": 0, "o3": 0, "t0": 0, "t1": 1, "t2": 0, "t3": 0, "asyncres": False, "asyncfields": False, "alias": 0},
    ),
    Cond(
        name="event_values", fn=_event_values, quick=120, thorough=300, per_path=60, shards_quick=14, shards_thorough=14,
        bound="every stream of 0..3 events drawn from %d event values (falsy scalars 0, '', False, 0.0, empty dict / list, None, truthy scalars, containers) x %d initial values x sync/async subscription resolver x subscription field with / without arguments (literal + variable + default): "
              "the k-th result is the selection executed with event k ITSELF as root; the initial value only reaches the subscription resolver, once" % (len(EVENT_VALUES), len(INITIALS)),
        symbolic={"n": "choice", "e0..e2": "choice: event values", "init": "choice: initial value", "asyncres": "choice", "withargs": "choice"},
        witness={"n": 2, "e0": 0, "e1": 5, "e2": 0, "init": 1, "asyncres": False, "withargs": True},
    ),
    Cond(
        name="refusals", fn=_refusals, quick=60, thorough=60,
        bound="%d requests: 10 that must be refused (two root fields written directly / through a named or inline fragment / mixed / as two aliases / in a named operation, no subscription resolver, query or mutation operation, "
              "runtime without stream support) and 4 controls that must be served (one response key spelled once, twice, through fragments, next to a skipped field) x sync/async subscription resolver: documented exception and source never consumed, or exactly one result per event" % len(REFUSALS),
        symbolic={"r": "choice", "asyncres": "choice"}, witness={"r": 0, "asyncres": False},
    ),
]
