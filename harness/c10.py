"""C10 - every outcome is a well-formed, serialisable response; failures stay contained."""
import json

from vf import known  # noqa: F401
from vf.spec import Cond, result, untraced, retraced, shard_of, thorough, concrete_int, pick  # noqa: F401

from py_gql import graphql_blocking, process_graphql_query
from py_gql._string_utils import index_to_loc, LINE_SEPARATOR
from py_gql.exc import ResolverError
from py_gql.execution import Executor
from py_gql.lang import parse
from py_gql.schema import Argument, Field, Float, Int, ListType, NonNullType, ObjectType, Schema, String
from harness import gqlworld as G
from oracles import ref_exec as RX

SUFFIX_CHARS = ("", "\\", '"', "u", "{", "}", " ", "#", "\n", "\r", "$", ".", "1", "e", "-", "é", " ", "\x00", "(", ":")


def lines_of(text):
    """line terminators of the specification: LF, CR, CRLF"""
    out, cur, i = [], "", 0
    while i < len(text):
        c = text[i]
        if c == "\n" or c == "\r":
            out.append(cur)
            cur = ""
            if c == "\r" and i + 1 < len(text) and text[i + 1] == "\n":
                i += 1
        else:
            cur += c
        i += 1
    out.append(cur)
    return out


def check_response(resp, text, expect_data, allow_nan=False):
    """response-format oracle (spec section 7); returns '' or the first problem"""
    try:
        json.dumps(resp, allow_nan=allow_nan)
    except (TypeError, ValueError) as e:
        return "not strict JSON: %r" % (e,)
    if not isinstance(resp, dict) or not set(resp) <= {"data", "errors", "extensions"}:
        return "top-level keys %r" % (list(resp),)
    if "errors" in resp and (not isinstance(resp["errors"], list) or not resp["errors"]):
        return "errors must be a non-empty list when present"
    if expect_data is False and "data" in resp:
        return "data present although the document did not parse / validate"
    if expect_data is True and "data" not in resp:
        return "data missing"
    lines = lines_of(text)
    for e in resp.get("errors", []):
        if not isinstance(e, dict) or not isinstance(e.get("message"), str):
            return "error without a string message: %r" % (e,)
        if not set(e) <= {"message", "locations", "path", "extensions"}:
            return "unexpected error keys %r" % (sorted(e),)
        for loc in e.get("locations", []):
            keys = set(loc)
            if keys != {"line", "column"} and not (known.c10_columne() and keys == {"line", "columne"}):
                return "location keys %r" % (sorted(keys),)
            line, col = loc["line"], loc.get("column", loc.get("columne"))
            if not (isinstance(line, int) and isinstance(col, int) and line >= 1 and col >= 1):
                return "location not 1-based ints %r" % (loc,)
            if known.c10_cr_lines(text):
                continue
            if line > len(lines) or col > len(lines[line - 1]) + 1:
                return "location %r outside the submitted document" % (loc,)
        if "path" in e and not (isinstance(e["path"], list) and all(isinstance(p, (str, int)) and not isinstance(p, bool) for p in e["path"])):
            return "path %r" % (e["path"],)
    return ""


def nulls_in(data, path=()):
    out = []
    if data is None:
        out.append(path)
    elif isinstance(data, dict):
        for k, v in data.items():
            out += nulls_in(v, path + (k,))
    elif isinstance(data, list):
        for i, v in enumerate(data):
            out += nulls_in(v, path + (i,))
    return out


def _truncations(t: int, cut: int, c1: int, c2: int) -> bool:
    """
    pre: 0 <= t < len(G.TEMPLATES) and 0 <= cut <= 200 and 0 <= c1 < len(SUFFIX_CHARS) and 0 <= c2 < len(SUFFIX_CHARS)
    pre: shard_of(t + len(G.TEMPLATES) * (cut % 2))
    pre: thorough() or ((c2 == 0 or c1 == 1) and t < 8)
    post: _
    """
    T = concrete_int(t, 0, len(G.TEMPLATES) - 1)
    text, variables = G.TEMPLATES[T]
    if cut > len(text):
        return result(True, False)
    P = concrete_int(cut, 0, len(text))
    A, B = pick(c1, SUFFIX_CHARS), pick(c2, SUFFIX_CHARS)
    if A == "" and B != "":
        return result(True, False)
    with untraced():
        src = text[:P] + A + B
        schema = G.build_real_schema()
        res = graphql_blocking(schema, src, variables=variables, root=G.make_data(), operation_name=G.OPNAMES.get(T) if P == len(text) and not A else None)
        resp = res.response()
        problem = check_response(resp, src, None)
        if not problem and "data" in resp and resp.get("errors") and resp["data"] is not None:
            pass
    return result(problem == "", "errors" in resp)


def ref_loc(text, pos):
    """1-based line / column of an offset, lines ending at LF (the templates contain no CR)"""
    before = text[:pos]
    return {"line": before.count("\n") + 1, "column": pos - (before.rfind("\n") + 1) + 1}


def value_at(data, path):
    """the value at `path`, or the marker 'gone' when an ancestor is null (non-null propagation)"""
    cur = data
    for p in path:
        if cur is None:
            return "gone"
        cur = cur[p]
    return cur


def _error_paths(t: int, nul: int, fail: int, cfg: int, shared: bool = False) -> bool:
    """
    pre: 0 <= t < len(G.TEMPLATES) and 0 <= nul < len(G.NULLS) and 0 <= fail < len(G.FAILS) and 0 <= cfg <= 1
    pre: thorough() or nul == 0 or fail == 0
    pre: shard_of(t)
    post: _
    """
    T = concrete_int(t, 0, len(G.TEMPLATES) - 1)
    text, variables = G.TEMPLATES[T]
    NUL, FAIL, C = pick(nul, G.NULLS), pick(fail, G.FAILS), concrete_int(cfg, 0, 1)
    SH = True if shared else False
    if SH and not FAIL:
        return result(True, False)
    with untraced():
        schema = G.build_real_schema(FAIL, shared_error=SH)        # SH: the failing resolvers all raise one and the same exception instance
        kw = dict(variables=variables, operation_name=G.OPNAMES.get(T), root=G.make_data(NUL, False))
        res = graphql_blocking(schema, text, **kw) if C == 0 else process_graphql_query(schema, text, executor_cls=Executor, **kw)
        resp = res.response()
        exp_data, exp_errs = RX.run(G.MODEL, parse(text), variables, RX.World(fail=FAIL, fns=G.FNS), G.OPNAMES.get(T), G.make_data(NUL, False))
        problem = check_response(resp, text, True)
        if not problem and json.dumps(resp["data"]) != json.dumps(exp_data):
            problem = "data differs from the reference"
        if not problem:
            # the serialised errors: exactly one entry per failed position, carrying that position's path and the field's location
            got = sorted(((tuple(e.get("path", ("<none>",))), json.dumps(e.get("locations"), sort_keys=True)) for e in resp.get("errors", [])), key=repr)
            exp = sorted(((path, json.dumps([ref_loc(text, pos)], sort_keys=True)) for path, pos in exp_errs), key=repr)
            if got != exp:
                problem = "errors %r, expected %r" % (got, exp)
        if not problem:
            # and each of them points at a null (or below a null that propagated upwards)
            for path, _ in exp_errs:
                if value_at(resp["data"], path) not in (None, "gone"):
                    problem = "error path %r does not point at a null" % (path,)
    return result(problem == "", bool(exp_errs))


MESSAGES = ("boom", "", "é\"\\\n", "x" * 300)
STAGES = ("parse", "validate", "operation-selection", "variable-coercion", "resolver-error", "non-null", "list-item", "float-nan", "float-inf", "resolver-error-ext",
          "variable-coercion-multi", "validate-multi-node", "validate-multi-error", "subscription-operation", "mutation-without-mutation-type",
          # (appended) a nullable variable with a default may feed `if: Boolean!`; an explicit null for it passes validation and variable coercion and fails when the directive is evaluated
          "directive-null-root", "directive-null-root-fragment", "directive-null-nested", "directive-null-mutation",
          # (appended) a leaf whose SERIALISED value is null although the resolved value is not (a custom scalar's serialize returning None)
          "serialized-null",
          # (appended) rejected variable values that contain characters with a meaning for message formatting (% { } \)
          "variable-coercion-percent", "variable-coercion-braces",
          # (appended) numbers JSON decoders produce that the scalar cannot hold: an integer too large for a float, for a Float variable / inside a list / inside an input object
          "variable-coercion-huge-float", "variable-coercion-huge-float-item")


def failure_schema(msg, ext, own_path=False):
    """own_path: the resolver builds its error with the documented `path` argument (a path of its own choosing)"""
    def boom(root, ctx, info, **kw):
        if own_path:
            raise ResolverError(msg, path=["made", "up", 7], extensions=ext)
        raise ResolverError(msg, extensions=ext)
    from py_gql.schema import ScalarType
    maybe = ScalarType("Maybe", serialize=lambda v: None if v == "gone" else v, parse=lambda v: v)
    obj = ObjectType("Obj", [Field("x", Int), Field("bad", Int, resolver=boom), Field("nn", NonNullType(Int)), Field("sn", NonNullType(maybe)), Field("sm", maybe)])
    q = ObjectType("Query", [
        Field("o", obj), Field("l", ListType(obj)), Field("bad", Int, resolver=boom), Field("nn", NonNullType(Int)),
        Field("sn", NonNullType(maybe)), Field("sl", ListType(NonNullType(maybe))), Field("sm", maybe),
        Field("arg", Int, args=[Argument("i", Int), Argument("l", ListType(Int)), Argument("f", Float), Argument("fl", ListType(Float))]),
        Field("f", Float), Field("fs", ListType(Float)), Field("a", Int), Field("s", String),
    ])
    if msg == "<mutation root>":
        return Schema(q, mutation_type=q)
    return Schema(q, subscription_type=ObjectType("Subscription", [Field("tick", Int, subscription_resolver=lambda *a, **k: None)]))


EXT_KINDS = ("none", "dict", "mappingproxy", "OrderedDict", "UserDict", "ChainMap", "empty dict")


def make_extensions(kind):
    import collections
    import types
    content = {"code": 7, "nested": {"k": [1, "two"]}}
    return {"none": None, "dict": content, "mappingproxy": types.MappingProxyType(content), "OrderedDict": collections.OrderedDict(content),
            "UserDict": collections.UserDict(content), "ChainMap": collections.ChainMap({"code": 7}, {"nested": {"k": [1, "two"]}}), "empty dict": {}}[kind]


def _failures(stage: int, m: int, cfg: int, ext: int, ast: bool = False, own_path: bool = False) -> bool:
    """
    pre: not own_path or stage == 4 or stage == 9 or stage == 6
    pre: 0 <= stage < len(STAGES) and 0 <= m < len(MESSAGES) and 0 <= cfg <= 1 and 0 <= ext < len(EXT_KINDS)
    pre: shard_of(stage)
    pre: ext <= 1 or stage == 9 or stage == 4
    post: _
    """
    ST, MSG, C = pick(stage, STAGES), pick(m, MESSAGES), concrete_int(cfg, 0, 1)
    EK = pick(ext, EXT_KINDS)
    AST = True if ast else False
    OP = True if own_path else False
    if AST and ST == "parse":
        return result(True, False)
    with untraced():
        EXT = make_extensions(EK)
        schema = failure_schema("<mutation root>" if ST == "directive-null-mutation" else MSG, EXT, OP)
        root = {"sn": "gone", "sm": "gone", "sl": ["kept", "gone", "kept"], "o": {"x": 1, "nn": None, "sn": "gone", "sm": "gone"}, "l": [{"x": 1, "nn": 2}, None, {"x": 3, "nn": None}], "nn": None, "a": 1, "s": "t",
                "f": float("nan") if ST == "float-nan" else (float("inf") if ST == "float-inf" else 1.5), "fs": [1.0, float("-inf")] if ST.startswith("float") else [1.0]}
        query, variables, opname, expect_data = {
            "parse": ("{ a ", None, None, False),
            "validate": ("{ nope }", None, None, False),
            "operation-selection": ("query A { a } query B { a }", None, "C", None),
            "variable-coercion": ("query ($v: Int!) { a s @skip(if: false) x: a @include(if: true) y: nn @skip(if: true) z: a @skip(if: $w) }".replace("$w", "true").replace("($v: Int!)", "($v: Int!)") + "", {"v": "str"}, None, None),
            "resolver-error": ("{ a bad o { x bad } }", None, None, True),
            "resolver-error-ext": ("{ bad o { bad } }", None, None, True),
            "non-null": ("{ a nn o { nn x } }", None, None, True),
            "list-item": ("{ l { x nn bad } }", None, None, True),
            "float-nan": ("{ f fs a }", None, None, True),
            "float-inf": ("{ f fs a }", None, None, True),
            "variable-coercion-multi": ("query ($v: Boolean!, $w: Boolean!) { a @skip(if: $v) s @include(if: $w) l { x @skip(if: $v) } o @include(if: $w) { x } }", {}, None, None),
            "validate-multi-node": ("{ a\n a: s\n o { x: nn\n  x } }", None, None, False),
            "validate-multi-error": ("{ nope a { x }\n ...Missing }\nfragment Unused on Query { a }", None, None, False),
            "subscription-operation": ("subscription { tick }", None, None, None),
            "mutation-without-mutation-type": ("mutation { a }", None, None, None),
            "directive-null-root": ("query ($v: Boolean = true) { a s @skip(if: $v) }", {"v": None}, None, None),
            "directive-null-root-fragment": ("query ($v: Boolean = true) { a ... @include(if: $v) { s } }", {"v": None}, None, None),
            "directive-null-nested": ("query ($v: Boolean = true) { a o { x @include(if: $v) } l { x } }", {"v": None}, None, None),
            "directive-null-mutation": ("mutation ($v: Boolean = true) { a ...F @skip(if: $v) } fragment F on Query { s }", {"v": None}, None, None),
            "serialized-null": ("{ a sn sm o { x sn sm } sl }", None, None, True),
            "variable-coercion-percent": ("query ($v: Int!, $w: [Int], $s: Boolean!) { arg(i: $v, l: $w) a @skip(if: $s) }", {"v": "10%", "w": ["%s", 1, "%d%%", "%(x)s"], "s": {"%": "%5"}}, None, None),
            "variable-coercion-huge-float": ("query ($v: Float) { arg(f: $v) a }", {"v": 10 ** 400}, None, None),
            "variable-coercion-huge-float-item": ("query ($v: [Float]) { arg(fl: $v) a }", {"v": [1.5, -(10 ** 400)]}, None, None),
            "variable-coercion-braces": ("query ($v: Int!, $w: [Int]) { arg(i: $v, l: $w) a }", {"v": "{0} {} {x!r} \\ \"", "w": {"{": "}"}}, None, None),
        }[ST]
        if ST == "subscription-operation" and known.c10_subscription_through_query_entry_point():
            return result(True, False)
        if ST == "variable-coercion":
            query = "query ($v: Int!) { a b: a @skip(if: false) arg(i: $v) }"       # the variable must be USED, or validation refuses the document first
        kw = dict(variables=variables, operation_name=opname, root=root)
        document = parse(query) if AST else query           # the request may also arrive as an already parsed document
        if C == 0:
            res = graphql_blocking(schema, document, **kw)
        else:
            res = process_graphql_query(schema, document, executor_cls=Executor, **kw)
        resp = res.response()
        problem = check_response(resp, query, expect_data, allow_nan=ST.startswith("float") and known.c10_nonfinite_floats())
        if not problem and ST.startswith("variable-coercion") and ST not in ("variable-coercion-multi",):
            # anti-vacuity: the request really got as far as variable coercion and was refused there
            if not any("ariable" in str(e.get("message")) and "invalid value" in str(e.get("message")) for e in resp.get("errors", [])):
                problem = "the request was not refused at variable coercion: %r" % (resp,)
        if not problem and expect_data and not ST.startswith("float"):
            # every null in a failing position is matched by exactly one error with that path, and vice versa
            nulls = sorted(nulls_in(resp["data"]), key=repr)
            paths = sorted((tuple(e["path"]) for e in resp.get("errors", []) if "path" in e), key=repr)
            expected_nulls = [p for p in nulls if not (p and p[-1] == 1 and p[0] == "l" and len(p) == 2)]   # l[1] is a plain null item
            expected_nulls = [p for p in expected_nulls if p[-1] != "sm"]                                   # sm is nullable: a serialised null there is just null
            if paths != expected_nulls:
                problem = "nulls %r vs error paths %r" % (nulls, paths)
        if not problem and ST == "resolver-error-ext" and EXT:
            # any Mapping is a legal extensions argument; its content must arrive as a JSON object
            if not all(e.get("extensions") == {"code": 7, "nested": {"k": [1, "two"]}} for e in resp["errors"]):
                problem = "extensions not passed through"
        if not problem and ST.startswith("float"):
            # non-finite floats cannot be represented: the field must become null with an error, siblings stay
            if resp["data"].get("a") != 1:
                problem = "sibling disturbed"
    return result(problem == "", True)


# ---------------------------------------------------------------- operation selection as a product (spec 6.1 GetOperation)
A1, ST = {"a": 1}, {"s": "t"}
OPSEL_DOCS = (          # (document, [(operation name, the data executing it gives)] in document order)
    ("{ a }", ((None, A1),)), ("query { a }", ((None, A1),)), ("query A { a }", (("A", A1),)), ("mutation { a }", ((None, A1),)), ("mutation A { a }", (("A", A1),)),
    ("query A { a } query B { s }", (("A", A1), ("B", ST))), ("query A { a } mutation B { s }", (("A", A1), ("B", ST))), ("query B { s } query A { a }", (("B", ST), ("A", A1))),
    ("query a { a }", (("a", A1),)), ("query A { a } query a { s }", (("A", A1), ("a", ST))),
)
OPSEL_NAMES = (None, "", "A", "B", "C", "a", "query", "__typename")


def _operation_selection(d: int, n: int, cfg: int, ast: bool) -> bool:
    """
    pre: 0 <= d < len(OPSEL_DOCS) and 0 <= n < len(OPSEL_NAMES) and 0 <= cfg <= 1
    post: _
    """
    (text, ops), NAME, C = pick(d, OPSEL_DOCS), pick(n, OPSEL_NAMES), concrete_int(cfg, 0, 1)
    names = [k for k, _ in ops]
    AST = True if ast else False
    with untraced():
        schema = failure_schema("<mutation root>", None)
        document = parse(text) if AST else text
        kw = dict(operation_name=NAME, root={"a": 1, "s": "t"})
        if C == 0:
            res = graphql_blocking(schema, document, **kw)               # any exception propagates: the entry point must answer with a result
        else:
            res = process_graphql_query(schema, document, executor_cls=Executor, **kw)
        resp = res.response()
        # spec 6.1: no name -> the document's only operation (else a request error); a name -> the operation of that name (else a request error)
        if NAME is None:
            chosen = names[0] if len(names) == 1 else "<error>"
        elif NAME == "":
            chosen = "<either>"          # an empty string is what HTTP front ends send for 'no name': absent or unknown, both are answers
        else:
            chosen = NAME if NAME in names else "<error>"
        problem = check_response(resp, text, None)
        if not problem:
            if chosen == "<either>":
                pass
            elif chosen == "<error>":
                if "errors" not in resp or resp.get("data") is not None:
                    problem = "an operation was executed although none is selected by %r: %r" % (NAME, resp)
            else:
                exp = dict(ops)[chosen]
                if "errors" in resp or resp.get("data") != exp:
                    problem = "operation %r selected by %r: expected %r, got %r" % (chosen, NAME, exp, resp)
    return result(problem == "", NAME is not None)


def _resolver_message(msg: str, code: int, where: int, cfg: int) -> bool:
    """
    pre: len(msg) <= 4
    pre: -(10**6) <= code <= 10**6
    pre: 0 <= where <= 2 and 0 <= cfg <= 1
    post: _
    """
    # DATA-symbolic: the message and an extensions value of the resolver's error are symbolic and flow through the real executor, error bookkeeping and
    # response building under tracing: they arrive unchanged (no formatting, no truncation, no interpretation of % { } \ characters), with the field's path
    WH, C = concrete_int(where, 0, 2), concrete_int(cfg, 0, 1)
    ext = {"code": code}
    with untraced():
        query, path = (("{ a bad }", ["bad"]), ("{ o { x bad } a }", ["o", "bad"]), ("{ l { bad } }", ["l", 0, "bad"]))[WH]
    schema = failure_schema(msg, ext)
    root = {"a": 1, "o": {"x": 1}, "l": [{"x": 1}]}
    if C == 0:
        res = graphql_blocking(schema, query, root=root)
    else:
        res = process_graphql_query(schema, query, executor_cls=Executor, root=root)
    resp = res.response()
    errs = resp.get("errors")
    ok = isinstance(errs, list) and len(errs) == 1 and errs[0].get("message") == msg and errs[0].get("path") == path
    ok = ok and isinstance(errs[0].get("message"), str) and dict(errs[0].get("extensions") or {}) == {"code": code}
    ok = ok and "data" in resp
    return result(ok, len(msg) > 0)


# ---------------------------------------------------------------- failures stay contained on the DEFERRED runtimes too
DEFERRED_QUERIES = (
    "mutation { ml { id ... on Obj { x y } } m3 }",          # a list whose second item cannot be typed (ResolverError from the type resolver) after item 0 started deferred work
    "mutation { m1 { x } ml { ... on Obj { y } } m3 }",
    "mutation { m1 { x sc } msc m3 }",                        # scalars whose serialize raises ResolverError while the value is completed
    "{ a sc o { x sc } b }",
)


def _deferred_containment(q: int, cfg: int, kx: int, s0: int, s1: int, s2: int, s3: int, s4: int) -> bool:
    """
    pre: 0 <= q < len(DEFERRED_QUERIES) and 1 <= cfg <= 3 and 1 <= kx <= 2
    pre: 0 <= s0 <= 4 and 0 <= s1 <= 3 and 0 <= s2 <= 2 and 0 <= s3 <= 1 and s4 == 0
    post: _
    """
    from harness import execworld as W
    from harness.c08 import make_chooser, run_config
    from py_gql.execution import BlockingExecutor
    Q, C, KX = pick(q, DEFERRED_QUERIES), concrete_int(cfg, 1, 3), concrete_int(kx, 1, 2)
    sched = [s0, s1, s2, s3, s4]
    with untraced():
        kinds = {"m1": 1, "m2": 1, "m3": 1, "x": KX, "y": 1, "a": 1, "o": 1}
        base, _ = W.run_blocking(kinds, Q, BlockingExecutor)
        got, w = run_config(C, kinds, Q, sched, False)
        if got[0] == "pruned":
            return result(True, False)
        steps = getattr(w, "steps", 0)
    for r in sched[steps:]:
        if r != 0:
            return result(True, False)
    with untraced():
        # the request is ANSWERED (never an exception out of the entry point, never a future that stays pending) with the response the blocking executor gives:
        # the same nulls, each matched by the same single error with its path
        ok = base[0] == "ok" and got == base
        if ok:
            data = json.loads(got[1])
            paths = [p for _, p in got[2]]
            # (errors recorded below a position that was nulled afterwards stay in the list: the specification keeps them)
            ok = all(paths.count(json.dumps(list(p))) == 1 for p in nulls_in(data))
    return result(ok, steps >= 2)


RENDER_N = 4 if thorough() else 3


def _render_kernel(body: str, position: int) -> bool:
    """
    pre: len(body) <= RENDER_N
    pre: 0 <= position <= len(body)
    post: _
    """
    line, col = index_to_loc(body, position)
    nlf = 0
    for c in body:
        if c == "\n":
            nlf += 1
    # 1-based, inside the text
    ok = line >= 1 and col >= 1 and line <= 1 + nlf and col <= 1 + len(body)
    # column = distance from the previous LF
    k = position
    while k > 0 and body[k - 1] != "\n":
        k -= 1
    ok = ok and col == position - k + 1
    return result(ok, line > 1)


def _line_separator(sep: str) -> bool:
    """replay body of the z3 regex condition"""
    m = LINE_SEPARATOR.match(sep)
    return result((m is not None and m.end() == len(sep)) == (sep in ("\n", "\r", "\r\n")), True)


def _solve_line_separator(tier):
    import z3
    from vf.smt import regex2z3 as RZ
    import re
    pat = re.compile("(?:" + LINE_SEPARATOR.pattern + r")\Z")          # full-match language of one separator
    impl = RZ.lang_of_match(pat)
    spec = RZ.union([RZ.lit("\n"), RZ.lit("\r"), RZ.lit("\r\n")])
    bad = RZ.validate_translation(pat, impl)
    if bad:
        return {"verdict": "error", "detail": "translator disagrees with re: %r" % (bad[:3],)}
    r = RZ.inclusion(impl, spec)
    out = {"verdict": r["verdict"], "queries": r["queries"], "solver_s": r["solver_s"], "smt_sizes": r["smt_sizes"], "second_opinion": r["second_opinion"],
           "detail": "language of one LINE_SEPARATOR match == {LF, CR, CRLF}; pattern %r" % LINE_SEPARATOR.pattern}
    if r["verdict"] == "refuted":
        out["counterexample"] = {"sep": r["witness"]}
    return out


CONDITIONS = [
    Cond(
        name="deferred_containment", fn=_deferred_containment, quick=150, thorough=300, per_path=60,
        bound="4 operations whose failure happens while a value is COMPLETED (a list item whose type resolver raises ResolverError after an earlier item started deferred sub-resolvers; scalars whose serialize "
              "raises) x sub-resolver value / ResolverError x thread pool (stub) / asyncio coroutines / asyncio plain functions x EVERY completion order (<= 5 tasks): the entry point answers with the "
              "blocking executor's response - no exception, no pending future - and every null is matched by exactly one error with its path",
        symbolic={"q,cfg,kx": "choice", "s0..s4": "choice: completion order"}, assumptions=["as C08 (stub pool, DetLoop)"],
        witness={"q": 0, "cfg": 1, "kx": 1, "s0": 0, "s1": 0, "s2": 0, "s3": 0, "s4": 0},
    ),
    Cond(
        name="resolver_message", fn=_resolver_message, quick=120, thorough=300, per_path=120,
        bound="the MESSAGE (every str of <= 4 symbolic characters) and an extensions value (symbolic int, abs <= 10**6) of a resolver's error flow through the real executors, error bookkeeping and response "
              "building under tracing x 3 positions (root, nested, list item) x 2 executors: the response carries exactly one error with that message unchanged as a str, the field's path, the "
              "extensions value unchanged, and data is present",
        symbolic={"msg": "data: the error message", "code": "data: an extensions value", "where,cfg": "choice"}, witness={"msg": "%s{", "code": 7, "where": 1, "cfg": 0},
    ),
    Cond(
        name="operation_selection", fn=_operation_selection, quick=60, thorough=60,
        bound="GetOperation as a product: 10 documents (anonymous / named, query / mutation, one or two operations, names differing in case only) x 8 operation names (absent, empty, matching, unknown, "
              "another case, a keyword, a meta-field name) x 2 entry points x text / parsed document: the response is well-formed; the named (or the only) operation is executed, every other combination is a request "
              "error without data - never an exception",
        symbolic={"d,n,cfg,ast": "choice"}, assumptions=["oracle: spec 6.1 GetOperation; the empty string may count as absent or as an unknown name"],
        witness={"d": 0, "n": 2, "cfg": 0, "ast": False},
    ),
    Cond(
        name="truncations", fn=_truncations, quick=200, thorough=1200, per_path=60, shards_quick=8, shards_thorough=2 * len(G.TEMPLATES),
        bound="%d request templates cut at EVERY position, followed by 0..2 characters from a %d-character set of lexer-relevant characters (quick: first 8 templates, second character only after a backslash)" % (len(G.TEMPLATES), len(SUFFIX_CHARS)),
        symbolic={"t": "choice: template", "cut": "choice: cut position", "c1,c2": "choice: appended characters"},
        assumptions=["oracle: response-format checker (spec section 7): strict JSON, message str, locations {line, column} 1-based inside the text, path of str/int"],
        witness={"t": 0, "cut": 5, "c1": 1, "c2": 0},
    ),
    Cond(
        name="error_paths", fn=_error_paths, quick=120, thorough=600, per_path=60, shards_quick=16, shards_thorough=21,
        bound="%d valid request templates x %d data worlds with a null placed at a (non-)nullable position x %d failing-resolver sets (quick: one of the two varies) x fresh error objects or ONE shared ResolverError instance x 2 executors; incl. execution-time argument coercion "
              "failures on a field node resolved several times (list items, one fragment under several parents)" % (len(G.TEMPLATES), len(G.NULLS), len(G.FAILS)),
        symbolic={"t": "choice: template", "nul": "choice: null placement", "fail": "choice: failing resolvers", "cfg": "choice: executor", "shared": "choice: one error instance for all failures"},
        assumptions=["oracle: reference executor (oracles/ref_exec.py, spec section 6) gives the data and the multiset of (error path, field position); locations recomputed independently"],
        witness={"t": 20, "nul": 0, "fail": 0, "cfg": 0, "shared": False},
    ),
    Cond(
        name="failures", fn=_failures, quick=60, thorough=120, shards_quick=4, shards_thorough=4,
        bound="22 failure stages (rejected variable values containing % / braces; a null variable for @skip / @include at the root, in a root fragment, nested, in a mutation; a subscription / a mutation operation sent to a schema or entry point that does not serve it, parse, validate, operation selection, variable coercion with one / several errors, validation errors with several nodes / several errors over several lines, resolver error, non-null, list item, "
              "NaN, infinities, extensions) x 4 resolver-error messages (incl. empty, quotes/backslash/newline, long) x 2 executors x resolver-supplied extensions (none, dict, empty dict, and for the resolver-error stages mappingproxy / OrderedDict / UserDict / ChainMap) x request given as text or as a parsed document x resolver errors built plainly or with a `path` argument of their own (the response path is the field's)",
        symbolic={"stage": "choice", "m": "choice: message", "cfg": "choice: BlockingExecutor / Executor", "ext": "choice: kind of Mapping given as extensions", "ast": "choice: text / parsed document", "own_path": "choice: the error carries a path already"},
        witness={"stage": 4, "m": 0, "cfg": 0, "ext": 0, "ast": False, "own_path": False},
    ),
    Cond(
        name="render_kernel", fn=_render_kernel, quick=100, thorough=600, per_path=30,
        bound="index_to_loc on every body of <= 3 (thorough 4) symbolic characters and every position 0..len(body): 1-based, inside the text, column counted from the previous LF",
        symbolic={"body": "data: source text", "position": "data: offset"}, witness={"body": "a\nb", "position": 3},
    ),
    Cond(
        name="line_separator", fn=_line_separator, kind="z3", solve=_solve_line_separator, quick=60, thorough=60, twin=False,
        bound="strings of every length: the language of one LINE_SEPARATOR match is exactly {LF, CR, CRLF}", symbolic={"sep": "data: z3 String"}, witness={"sep": "\r\n"},
    ),
]
