"""C19 - depth limiting flags exactly the operations deeper than the limit."""
from vf import known  # noqa: F401
from vf.spec import Cond, result, untraced, shard_of, thorough, concrete_int, pick  # noqa: F401

from py_gql.lang import parse
from py_gql.utilities import MaxDepthValidationRule

DMAX = 3 if thorough() else 2
NAMES = ("a", "b", "c", "d", "e")


def chain_text(depth, w0, wk, dirkind, dirlevel, key, frags, tag):
    """a chain of `depth`+1 nested fields key/b/c/...; level 0 wrapped per w0, deeper levels per wk
    (0 plain, 1 inline fragment, 2 named fragment); a @skip/@include(if: $v) directive on level `dirlevel`."""
    def level(i):
        name = key if i == 0 else NAMES[i]
        d = ""
        if dirkind and i == dirlevel:
            d = " @skip(if: $v)" if dirkind == 1 else " @include(if: $v)"
        inner = (" { %s }" % level(i + 1)) if i < depth else ""
        text = "%s%s%s" % (name, d, inner)
        mode = w0 if i == 0 else wk
        if mode == 1:
            return "... on T { %s }" % text
        if mode == 2:
            fname = "F%s%d" % (tag, i)
            frags.append("fragment %s on T { %s }" % (fname, text))
            return "...%s" % fname
        return text
    return level(0)


def chain_depth(depth, dirkind, dirlevel, v):
    """reference: nesting levels below the root field contributed by the chain; None if nothing is selected"""
    skipped = (dirkind == 1 and v) or (dirkind == 2 and not v)
    if skipped and dirlevel <= depth:
        return None if dirlevel == 0 else dirlevel - 1
    return depth


_RULE_SCHEMA = None


def rule_schema():
    """the rule is a validator: validate_ast always hands it the schema (it needs one to coerce the operation's variables)"""
    global _RULE_SCHEMA
    if _RULE_SCHEMA is None:
        from py_gql import build_schema
        _RULE_SCHEMA = build_schema("type Query { keep: Int }")
    return _RULE_SCHEMA


def _depth_single(d1: int, w0: int, wk: int, dirkind: int, dirlevel: int, v: bool, b2: int, limit: int, vm: int = 0, hist: int = 0) -> bool:
    """
    pre: 0 <= d1 <= DMAX and 0 <= w0 <= 2 and 0 <= wk <= 2 and 0 <= vm <= 3
    pre: 0 <= hist <= 3 and (hist == 0 or (dirkind > 0 and vm == 0 and (thorough() or (b2 == 0 and hist == 1 and 0 <= limit <= 2))))
    pre: vm == 0 or (dirkind > 0 and (thorough() or b2 == 0))
    pre: 0 <= dirkind <= 2 and 0 <= dirlevel <= d1
    pre: 0 <= b2 <= 24
    pre: -1 <= limit <= 4
    pre: shard_of(d1 * 9 + w0 * 3 + wk)
    post: _
    """
    limit = concrete_int(limit, -1, 4)
    D1, W0, WK = concrete_int(d1, 0, DMAX), concrete_int(w0, 0, 2), concrete_int(wk, 0, 2)
    DK = concrete_int(dirkind, 0, 2)
    DL = concrete_int(dirlevel, 0, D1)
    if DK == 0 and DL != 0:
        return result(True, False)
    if D1 == 0 and WK != 0:
        return result(True, False)
    V = True if v else False
    B2 = concrete_int(b2, 0, 24)
    VM = concrete_int(vm, 0, 3)
    HIST = concrete_int(hist, 0, 3)
    with untraced():
        frags = []
        sels = [chain_text(D1, W0, WK, DK, DL, "a", frags, "x")]
        depths = [chain_depth(D1, DK, DL, V)]
        if B2:
            c = B2 - 1
            d2, w2, samekey = c % 4, (c // 4) % 3, c // 12
            sels.append(chain_text(d2, w2, 0, 0, 0, "a" if samekey else "z", frags, "y"))
            depths.append(d2)
        always = [d for d in depths if d is not None]
        # how $v gets its value: 0 given; 1 omitted, the declaration's default applies; 2 omitted without a default; 3 explicit null
        decl = "$v: Boolean = %s" % ("true" if V else "false") if VM == 1 else "$v: Boolean"
        src = "query Q(%s) { %s keep }\n%s" % (decl, " ".join(sels), "\n".join(frags))
        doc = parse(src)
        exp_depth = max(always + [0])
        rule = MaxDepthValidationRule(limit)
        # history of the RULE OBJECT (one instance is configured once and used for every request): 1 = the same parsed document was checked before with the
        # other value of $v, 2 = ... with the same value, 3 = another document was checked before
        if HIST == 1:
            rule(rule_schema(), doc, {"v": not V})
        elif HIST == 2:
            rule(rule_schema(), doc, {"v": V})
        elif HIST == 3:
            rule(rule_schema(), parse("query Q($v: Boolean) { a { b { c { d { e } } } } keep @skip(if: $v) }"), {"v": V})
        errors = rule(rule_schema(), doc, {"v": V} if VM == 0 else ({"v": None} if VM == 3 else {}))
        if VM >= 2:
            # the directive has no usable value: the operation cannot be executed; the rule must still answer (a list), whatever it says
            return result(isinstance(errors, list), False)
        flagged = len(errors) > 0
        ok = flagged == (exp_depth > limit) and len(errors) <= 1
    return result(ok, exp_depth > 0)


def _depth_ops(e1: int, e2: int, w1: int, w2: int, opname: int, limit: int, gate: int = 0, swap: bool = False) -> bool:
    """
    pre: 0 <= e1 <= 3 and 0 <= e2 <= 3 and 0 <= w1 <= 2 and 0 <= w2 <= 2 and 0 <= opname <= 3 and 0 <= gate <= 3
    pre: -1000 <= limit <= 1000
    pre: shard_of(e1 * 4 + e2)
    post: _
    """
    E1, E2, W1, W2, ON = (concrete_int(e1, 0, 3), concrete_int(e2, 0, 3), concrete_int(w1, 0, 2), concrete_int(w2, 0, 2),
                          concrete_int(opname, 0, 3))
    GATE = concrete_int(gate, 0, 3)
    SW = True if swap else False
    with untraced():
        frags = []
        s1 = chain_text(E1, W1, 0, 0, 0, "a", frags, "p")
        s2 = chain_text(E2, W2, 0, 0, 0, "a", frags, "q")
        # every root selection of operation B switched off: nothing is selected there, whatever the other operation looks like
        s2 = (s2, "... @skip(if: true) { %s }" % s2, "... @include(if: false) { %s }" % s2, "... @include(if: true) { ... @skip(if: true) { %s } }" % s2)[GATE]
        ops = ["query A { %s }" % s1, "query B { %s }" % s2]
        if SW:
            ops.reverse()
        src = "%s\n%s\n%s" % (ops[0], ops[1], "\n".join(frags))
        doc = parse(src)
        name = (None, "A", "B", "Nope")[ON]
    rule = MaxDepthValidationRule(limit, operation_name=name)
    errors = rule(rule_schema(), doc, {})
    exp = 0
    if name in (None, "A") and E1 > limit:
        exp += 1
    if name in (None, "B") and (0 if GATE else E2) > limit:
        exp += 1
    ok = len(errors) == exp
    if ok and exp:
        # the error names the operation it is about
        with untraced():
            ok = all(e.nodes and e.nodes[0].name.value in ("A", "B") for e in errors)
    return result(ok, exp > 0)


def nest(depth, leaf):
    """depth nested fields around `leaf`: nest(2, X) = 'p0 { p1 { X } }'"""
    out = leaf
    for i in reversed(range(depth)):
        out = "p%d { %s }" % (i, out)
    return out


def _depth_shared_fragment(d1: int, d2: int, k: int, deep_first: bool, limit: int, third: bool) -> bool:
    """
    pre: 0 <= d1 <= 2 and 0 <= d2 <= 3 and 0 <= k <= 2 and -1 <= limit <= 6
    post: _
    """
    D1, D2, K, L = concrete_int(d1, 0, 2), concrete_int(d2, 0, 3), concrete_int(k, 0, 2), concrete_int(limit, -1, 6)
    DF, TH = (True if deep_first else False), (True if third else False)
    with untraced():
        # the SAME named fragment is spread at nesting level D1 and at nesting level D2 of one operation
        frag_body = nest(K, "leaf")                    # K levels below the spread position
        a = "u " + nest(D1, "...F") if D1 else "...F"
        b = "v " + nest(D2, "...F") if D2 else "...F"
        if D1:
            a = "u { %s }" % nest(D1 - 1, "...F") if D1 > 1 else "u { ...F }"
        if D2:
            b = "v { %s }" % nest(D2 - 1, "...F") if D2 > 1 else "v { ...F }"
        parts = [b, a] if DF else [a, b]
        if TH:
            parts.append("w { ...G }")
        src = "query Q { %s }\nfragment F on T { %s }\nfragment G on T { ...F }" % (" ".join(parts), frag_body)
        doc = parse(src)
        depth = max(D1, D2) + K
        if TH:
            depth = max(depth, 1 + K)
        rule = MaxDepthValidationRule(L)
        errors = rule(rule_schema(), doc, {})
        ok = (len(errors) > 0) == (depth > L) and len(errors) <= 1
    return result(ok, D1 != D2)


from harness import docgen as DG  # noqa: E402
from oracles.ref_exec import reference_depth  # noqa: E402


def _depth_pieces(pa: int, pb: int, pc: int, pd: int, sv: bool, iv: bool, wrap: int, delta: int) -> bool:
    """
    pre: 0 <= pa < len(DG.PIECES) and pa < pb <= len(DG.PIECES) and pb <= pc <= len(DG.PIECES) and pc <= pd <= len(DG.PIECES) and 0 <= wrap <= 3 and -1 <= delta <= 1
    pre: (pb == len(DG.PIECES) or pb < pc or pc == len(DG.PIECES)) and (pc == len(DG.PIECES) or pc < pd or pd == len(DG.PIECES))
    pre: thorough() or pd == len(DG.PIECES)
    pre: shard_of(pa * 5 + pb)
    post: _
    """
    M = DG.mask_of([concrete_int(x, 0, len(DG.PIECES)) for x in (pa, pb, pc, pd)])
    W, D = concrete_int(wrap, 0, 3), concrete_int(delta, -1, 1)
    variables = {"s": True if sv else False, "i": True if iv else False}
    with untraced():
        doc = parse(DG.document(M, W))
        op = doc.definitions[0]
        depth = reference_depth(doc, op, variables)
        limit = depth + D                       # just below, at, just above the true depth
        errors = MaxDepthValidationRule(limit)(rule_schema(), doc, variables)
        ok = (len(errors) > 0) == (depth > limit) and len(errors) <= 1
    return result(ok, depth > 1)


# ---- the rule used the way the documentation shows: as a validator of the public entry points, with the REQUEST's variables
_ENTRY_SCHEMA = None


def entry_schema():
    global _ENTRY_SCHEMA
    if _ENTRY_SCHEMA is None:
        from py_gql import build_schema
        _ENTRY_SCHEMA = build_schema("schema { query: T } type T { a: T b: T c: T d: T e: T z: T keep: Int }")
    return _ENTRY_SCHEMA


def _depth_entry(d1: int, dirkind: int, dirlevel: int, v: bool, limit: int, vm: int, req: bool, entry: int) -> bool:
    """
    pre: 1 <= d1 <= 3 and 1 <= dirkind <= 2 and 0 <= dirlevel <= d1 and -1 <= limit <= 4 and 0 <= vm <= 1 and 0 <= entry <= 1
    pre: shard_of(d1 * 3 + dirkind)
    post: _
    """
    from py_gql import graphql_blocking, process_graphql_query
    D1, DK, DL = concrete_int(d1, 1, 3), concrete_int(dirkind, 1, 2), concrete_int(dirlevel, 0, 3)
    LIM, VM, EN = concrete_int(limit, -1, 4), concrete_int(vm, 0, 1), concrete_int(entry, 0, 1)
    V, REQ = (True if v else False), (True if req else False)
    with untraced():
        frags = []
        sel = chain_text(D1, 0, 0, DK, DL, "a", frags, "x")
        # how $v gets its value: 0 given in the request, 1 omitted (the declaration's default applies); req: the operation also declares a REQUIRED variable, supplied by the request
        decl = ("$v: Boolean = %s" % ("true" if V else "false")) if VM == 1 else "$v: Boolean!"
        if REQ:
            decl += ", $id: Int!"
        src = "query Q(%s) { %s keep%s }" % (decl, sel, " again: keep @skip(if: false)" if not REQ else " w: keep @include(if: true)")
        variables = {} if VM == 1 else {"v": V}
        if REQ:
            variables["id"] = 7
        exp_depth = max([d for d in [chain_depth(D1, DK, DL, V)] if d is not None] + [0])
        kw = dict(variables=variables, validators=[MaxDepthValidationRule(LIM)], root={})
        res = graphql_blocking(entry_schema(), src, **kw) if EN == 0 else process_graphql_query(entry_schema(), src, **kw)
        flagged = any("exceeds maximum depth" in str(e) for e in (res.errors or []))
        ok = flagged == (exp_depth > LIM) and (flagged or not res.errors)
    return result(ok, exp_depth > LIM)


# ---- meta-fields are fields: the introspection root fields open the deepest selections a client can write
META_DOCS = (
    ("{ __schema { queryType { name } } keep }", 2),
    ("{ __type(name: \"T\") { fields { type { ofType { name } } } } keep }", 4),
    ("{ a { __typename } }", 1),
    ("{ ...F keep } fragment F on T { __schema { types { name } } }", 2),
    ("{ x: __schema { types { fields { args { type { name } } } } } a { keep } }", 5),
    ("{ ... on T { s: __schema { directives { args { name } } } } }", 3),
    ("{ a { a { keep } } __typename }", 2),
    ("query ($v: Boolean!) { __schema @skip(if: $v) { types { fields { name } } } a { keep } }", None),      # depth 3 when $v is false, 1 when true
)


def _depth_meta(doc: int, limit: int, v: bool, entry: int) -> bool:
    """
    pre: 0 <= doc < len(META_DOCS) and -1 <= limit <= 6 and 0 <= entry <= 1
    post: _
    """
    text, depth = pick(doc, META_DOCS)
    LIM, EN, V = concrete_int(limit, -1, 6), concrete_int(entry, 0, 1), (True if v else False)
    with untraced():
        if depth is None:
            depth = 1 if V else 3
        variables = {"v": V} if "$v" in text else {}
        if EN == 0:
            errors = MaxDepthValidationRule(LIM)(entry_schema(), parse(text), variables)
            flagged = len(errors) > 0
            ok = isinstance(errors, list) and len(errors) <= 1
        else:
            from py_gql import graphql_blocking
            res = graphql_blocking(entry_schema(), text, variables=variables, validators=[MaxDepthValidationRule(LIM)], root={})
            flagged = any("exceeds maximum depth" in str(e) for e in (res.errors or []))
            ok = True
        ok = ok and flagged == (depth > LIM)
    return result(ok, depth > LIM)


def _depth_symbolic_limit(d1: int, w0: int, d2: int, limit: int, entry: int) -> bool:
    """
    pre: 0 <= d1 <= DMAX and 0 <= w0 <= 2 and 0 <= d2 <= 3 and 0 <= entry <= 1
    pre: -(10**6) <= limit <= 10**6
    post: _
    """
    # DATA-symbolic: the limit is a z3 integer that flows through the real rule (traced); the operation is concrete. Every comparison the rule makes with the
    # limit is decided by the solver: the operation is flagged exactly when its depth exceeds the limit, for EVERY limit in the range (incl. 0 and negatives)
    D1, W0, D2, E = concrete_int(d1, 0, DMAX), concrete_int(w0, 0, 2), concrete_int(d2, 0, 3), concrete_int(entry, 0, 1)
    with untraced():
        frags = []
        sels = [chain_text(D1, W0, 0, 0, 0, "a", frags, "x"), chain_text(D2, 0, 0, 0, 0, "z", frags, "y")]
        doc = parse("query Q { %s keep }\n%s" % (" ".join(sels), "\n".join(frags)))
        depth = max(D1, D2)
        schema = rule_schema()
    rule = MaxDepthValidationRule(limit)
    errors = rule(schema, doc, {}) if E == 0 else rule(schema, doc)
    flagged = len(errors) > 0
    return result(flagged == (depth > limit) and len(errors) <= 1, flagged)


CONDITIONS = [
    Cond(
        name="depth_symbolic_limit", fn=_depth_symbolic_limit, quick=200, thorough=400, per_path=60,
        bound="the LIMIT is a symbolic integer, abs(limit) <= 10**6 (z3 Int; the bound only limits the digit-count forks of the message formatting), flowing through the real rule under tracing x operations of two branches (depths 0..DMAX and 0..3, direct / fragment / inline "
              "spellings) x rule called with and without a variables argument: flagged (exactly one error) iff depth > limit, for every limit incl. 0 and the negatives",
        symbolic={"limit": "data: the configured limit", "d1,w0,d2,entry": "choice"}, witness={"d1": 2, "w0": 0, "d2": 1, "limit": 1, "entry": 0},
    ),
    Cond(
        name="depth_meta", fn=_depth_meta, quick=60, thorough=60,
        bound="%d operations whose deepest path runs through meta-fields (__schema / __type at the root, aliased, inside fragments, switched by a variable; __typename leaves) x every limit -1..6 x the rule called directly or as a validator of "
              "graphql_blocking: flagged exactly when the written depth exceeds the limit" % len(META_DOCS),
        symbolic={"doc,limit,entry": "choice", "v": "data"}, witness={"doc": 0, "limit": 1, "v": False, "entry": 0},
    ),
    Cond(
        name="depth_entry", fn=_depth_entry, quick=60, thorough=120, per_path=30, shards_quick=8, shards_thorough=8,
        bound="the rule passed as `validators=[...]` to graphql_blocking / process_graphql_query with the REQUEST's variables: chains of depth 1..3 with @skip / @include(if: $v) at any level, $v given in the request or left to the "
              "declaration's default, the operation optionally declaring a further REQUIRED variable (supplied), every limit -1..4: the request is refused with the depth error exactly when the depth that the request's variables select exceeds the limit",
        symbolic={"d1,dirkind,dirlevel,limit,vm,entry": "choice", "v,req": "data / choice"}, witness={"d1": 2, "dirkind": 1, "dirlevel": 1, "v": False, "limit": 1, "vm": 0, "req": True, "entry": 0},
    ),
    Cond(
        name="depth_pieces", fn=_depth_pieces, quick=150, thorough=900, per_path=60, shards_quick=16, shards_thorough=16,
        bound="the executable documents of harness/docgen.py (ordered subsets of %d selection pieces: one field under several aliases with different sub-depths, a fragment spread several times at different levels and under @skip/@include, "
              "inline fragments, both directives on one field; subsets of size <= 3, thorough <= 4) x variable values x 4 wrappings x limit = reference depth - 1 / +0 / +1" % len(DG.PIECES),
        symbolic={"pa..pd": "choice: which pieces", "sv,iv": "data: variable values", "wrap": "choice", "delta": "choice: limit relative to the true depth"},
        assumptions=["oracle: oracles/ref_exec.reference_depth (longest selected field path, merged same-key fields, fragments at any level)"],
        witness={"pa": 3, "pb": 13, "pc": 13, "pd": 13, "sv": False, "iv": True, "wrap": 0, "delta": -1},
    ),
    Cond(
        name="depth_shared_fragment", fn=_depth_shared_fragment, quick=100, thorough=200, per_path=60,
        bound="one named fragment (inner depth 0..2) spread at two different nesting levels (0..2 and 0..3) of the same operation, either one first, optionally a third time through another fragment; every limit -1..6",
        symbolic={"d1,d2": "choice: nesting levels of the two spreads", "k": "choice: depth inside the fragment", "deep_first": "choice: document order", "limit": "choice", "third": "choice"},
        witness={"d1": 0, "d2": 2, "k": 2, "deep_first": False, "limit": 3, "third": False},
    ),
    Cond(
        name="depth_single", fn=_depth_single, quick=170, thorough=600, per_path=30, shards_quick=16, shards_thorough=16,
        bound="one operation: chain of depth <= 2 (thorough 3) with top level and deeper levels plain / inline fragment / named fragment, "
              "@skip/@include(if: $v) at any level, $v true/false given in the request or through the declaration's default (or missing / null: the rule must still return a list), optional second branch (depth 0..3, 3 wraps, same or other response key), x history of the rule OBJECT (fresh / the same parsed document checked before with the other or the same value of $v / another document checked before), every limit in -1..4 (solver-chosen, concrete after decoding; the symbolic limit is in depth_ops)",
        symbolic={"limit": "choice: the depth limit", "v": "data: variable value", "d1,w0,wk,dirkind,dirlevel,b2": "choice: document shape"},
        assumptions=["oracle: depth = nesting levels below the root fields along the longest selected path (class docstring example = 4)"],
        witness={"d1": 2, "w0": 1, "wk": 2, "dirkind": 0, "dirlevel": 0, "v": False, "b2": 0, "limit": 1, "vm": 0, "hist": 0},
    ),
    Cond(
        name="depth_ops", fn=_depth_ops, quick=100, thorough=300, per_path=30, shards_quick=16, shards_thorough=16,
        bound="two named operations of depth 0..3 each (top wrapped 3 ways), in both orders, the second one as written or with all its root selections switched off by @skip / @include (3 spellings), "
              "operation_name in {None, A, B, unknown}, limit symbolic in [-1000, 1000]",
        symbolic={"limit": "data", "e1,e2,w1,w2,opname,gate,swap": "choice"},
        witness={"e1": 1, "e2": 3, "w1": 0, "w2": 1, "opname": 2, "limit": 2, "gate": 0, "swap": False},
    ),
]
