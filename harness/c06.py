"""C06 - validation verdicts match the specification and ignore irrelevant order."""
import copy
import itertools

from vf import known  # noqa: F401
from vf.spec import Cond, result, untraced, retraced, shard_of, thorough, concrete_int, pick  # noqa: F401

from py_gql.lang import ast as A
from py_gql.lang import parse, print_ast
from py_gql.lang.visitor import ChainedVisitor
from py_gql.validation import SPECIFIED_RULES, validate_ast
from py_gql.validation.visitors import TypeInfoVisitor
from harness import gqlworld as G
from harness.c05 import SOURCES, VALID_TEMPLATE

_SCHEMA = None


def schema():
    global _SCHEMA
    if _SCHEMA is None:
        _SCHEMA = G.build_real_schema()
    return _SCHEMA


def violated_rules(doc):
    """names of the rule visitors that reported at least one error (same chain as default_validator), and the verdict of validate_ast"""
    s = schema()
    type_info = TypeInfoVisitor(s)
    visitors = [cls(s, type_info) for cls in SPECIFIED_RULES]
    ChainedVisitor(type_info, *visitors).visit(copy.deepcopy(doc))
    rules = sorted({type(v).__name__ for v in visitors if v.errors})
    verdict = not validate_ast(s, copy.deepcopy(doc)).errors
    return rules, verdict


# ---- transformations that cannot affect validity (own AST walker, not the library's visitor)
def walk(node, fn):
    fn(node)
    for slot in getattr(node, "__slots__", ()):
        if slot in ("source", "loc"):
            continue
        v = getattr(node, slot, None)
        if isinstance(v, A.Node):
            walk(v, fn)
        elif isinstance(v, list):
            for x in v:
                if isinstance(x, A.Node):
                    walk(x, fn)


def t_reverse_definitions(doc):
    doc.definitions = list(reversed(doc.definitions))


def t_rotate_definitions(doc):
    doc.definitions = doc.definitions[1:] + doc.definitions[:1]


def t_reverse_selections(doc):
    def fn(n):
        if isinstance(n, A.SelectionSet):
            n.selections = list(reversed(n.selections))
    walk(doc, fn)


def t_reverse_arguments(doc):
    def fn(n):
        if isinstance(n, (A.Field, A.Directive)):
            n.arguments = list(reversed(n.arguments))
        if isinstance(n, A.ObjectValue):
            n.fields = list(reversed(n.fields))
    walk(doc, fn)


def t_rename_fragments(doc):
    def fn(n):
        if isinstance(n, (A.FragmentDefinition, A.FragmentSpread)):
            n.name = A.Name(value="Zz" + n.name.value)
    walk(doc, fn)


def t_rename_variables(doc):
    def fn(n):
        if isinstance(n, A.Variable):
            n.name = A.Name(value="vv_" + n.name.value)
    walk(doc, fn)


def t_rename_aliases(doc):
    """consistent renaming of response keys: every field answering under key K now answers under al_K"""
    def fn(n):
        if isinstance(n, A.Field) and n.name.value != "__typename":
            n.alias = A.Name(value="al_" + (n.alias.value if n.alias is not None else n.name.value))
    walk(doc, fn)


def t_rename_operations(doc):
    def fn(n):
        if isinstance(n, A.OperationDefinition) and n.name is not None:
            n.name = A.Name(value="Op" + n.name.value)
    walk(doc, fn)


TRANSFORMS = (t_reverse_definitions, t_rotate_definitions, t_reverse_selections, t_reverse_arguments, t_rename_fragments, t_rename_variables,
              t_rename_aliases, t_rename_operations)
SPELLINGS = ("print2", "print4", "commas", "comments")


def respell(doc, how):
    if how == "print2":
        return print_ast(doc, indent=2)
    text = print_ast(doc, indent=4)
    if how == "commas":
        return text.replace("\n", ",\n,").replace("(", "( ,").replace(" {", " ,{ ")
    if how == "comments":
        return "# c\n﻿" + text.replace("\n", " # x\n\t")
    return text


def _metamorphic(src: int, mask: int, spelling: int) -> bool:
    """
    pre: 0 <= src < len(SOURCES) and 0 <= mask < 256 and 0 <= spelling < len(SPELLINGS)
    pre: thorough() or one_or_two_bits(mask)
    pre: shard_of(src)
    post: _
    """
    S = concrete_int(src, 0, len(SOURCES) - 1)
    M = concrete_int(mask, 0, 255)
    SP = pick(spelling, SPELLINGS)
    with untraced():
        doc = parse(SOURCES[S])
        base_rules, base_verdict = violated_rules(doc)
        new = copy.deepcopy(doc)
        for i, tr in enumerate(TRANSFORMS):
            if M >> i & 1:
                tr(new)
        new = parse(respell(new, SP))
        rules, verdict = violated_rules(new)
        ok = rules == base_rules and verdict == base_verdict and (verdict == (not rules))
        if S in VALID_TEMPLATE:
            ok = ok and verdict          # valid templates stay valid
    return result(ok, bool(M))


def one_or_two_bits(m) -> bool:
    c = 0
    for i in range(8):
        if m >> i & 1:
            c += 1
    return c <= 2


# ---- labelled single-rule mutants: each must be reported by (at least) the rule it breaks
MUTANTS = (
    ("query A { n } query A { n }", "UniqueOperationNameChecker"),
    ("{ n } query A { n }", "LoneAnonymousOperationChecker"),
    ("query ($v: Nope) { echo(x: $v) }", "KnownTypeNamesChecker"),
    ("{ me { ... on Role { name } } }", "FragmentsOnCompositeTypesChecker"),
    ("query ($v: User) { echo(x: $v) }", "VariablesAreInputTypesChecker"),
    ("{ me }", "ScalarLeafsChecker"),
    ("{ n { x } }", "ScalarLeafsChecker"),
    ("{ me { nope } }", "FieldsOnCorrectTypeChecker"),
    ("{ me { ...F } } fragment F on User { name } fragment F on User { age }", "UniqueFragmentNamesChecker"),
    ("{ me { ...Nope } }", "KnownFragmentNamesChecker"),
    ("{ n } fragment F on User { name }", "NoUnusedFragmentsChecker"),
    ("{ me { ... on Cat { name } } }", "PossibleFragmentSpreadsChecker"),
    ("{ me { ...F } } fragment F on User { best { ...F } }", "NoFragmentCyclesChecker"),
    ("query ($a: Int, $a: Int) { echo(x: $a) }", "UniqueVariableNamesChecker"),
    ("{ echo(x: $v) }", "NoUndefinedVariablesChecker"),
    ("query ($v: Int) { n }", "NoUnusedVariablesChecker"),
    ("{ n @nope }", "KnownDirectivesChecker"),
    ("query @skip(if: true) { n }", "KnownDirectivesChecker"),
    ("{ n @skip(if: true) @skip(if: false) }", "UniqueDirectivesPerLocationChecker"),
    ("{ echo(nope: 1) }", "KnownArgumentNamesChecker"),
    ("{ echo(x: 1, x: 2) }", "UniqueArgumentNamesChecker"),
    ("{ echo(x: \"s\") }", "ValuesOfCorrectTypeChecker"),
    ("{ search(f: {nope: 1}) }", "ValuesOfCorrectTypeChecker"),
    ("{ echo(r: NOPE) }", "ValuesOfCorrectTypeChecker"),
    ("mutation { bump }", "ProvidedRequiredArgumentsChecker"),
    ("query ($v: String) { echo(x: $v) }", "VariablesInAllowedPositionChecker"),
    ("query ($v: Int) { me { ...F } } fragment F on User { tags score(scale: $v) friends { ...G } } fragment G on User { s: score(scale: [$v]) }", "ValuesOfCorrectTypeChecker"),
    ("{ me { a: name a: age } }", "OverlappingFieldsCanBeMergedChecker"),
    ("{ echo(x: 1) echo(x: 2) }", "OverlappingFieldsCanBeMergedChecker"),
    ("{ search(f: {a: 1, a: 2}) }", "UniqueInputFieldNamesChecker"),
)


def _mutants(m: int, mask: int) -> bool:
    """
    pre: 0 <= m < len(MUTANTS) and 0 <= mask < 8
    post: _
    """
    text, rule = pick(m, MUTANTS)
    M = concrete_int(mask, 0, 7)
    with untraced():
        doc = parse(text)
        for i, tr in enumerate((t_reverse_definitions, t_reverse_selections, t_reverse_arguments)):
            if M >> i & 1:
                tr(doc)
        rules, verdict = violated_rules(parse(print_ast(doc)))
        ok = (not verdict) and rule in rules
    return result(ok, True)


# ---- sub-languages with a reference written from the specification
FRAG = ("Fa", "Fb", "Fc")


PLACES = ("best { ...%s }", "...%s", "best { ...%s best { ...%s } }", "...%s best { ...%s }", "friends { ...%s } best { ...%s }")


def _cycles(adj: int, order: int, place: int = 0) -> bool:
    """
    pre: 0 <= adj < 512 and 0 <= order < 6 and 0 <= place < len(PLACES)
    pre: place == 0 or order == 0 or thorough()
    pre: shard_of(adj)
    post: _
    """
    AD = concrete_int(adj, 0, 511)
    PL = pick(place, PLACES)
    perm = pick(order, tuple(itertools.permutations(range(3))))
    with untraced():
        edges = {(i, j) for i in range(3) for j in range(3) if AD >> (i * 3 + j) & 1}
        defs = []
        for i in range(3):
            # where a spread sits: below a field, directly, at TWO depths of the same fragment, directly and below a field, under two sibling fields
            spreads = " ".join(PL.replace("%s", FRAG[j]) for j in range(3) if (i, j) in edges)
            defs.append("fragment %s on User { name %s }" % (FRAG[i], spreads))
        text = "{ me { ...Fa ...Fb ...Fc } } " + " ".join(defs[i] for i in perm)
        # reference: some fragment reaches itself (spec 5.5.2.2)
        reach = {i: {j for (a, j) in edges if a == i} for i in range(3)}
        changed = True
        while changed:
            changed = False
            for i in range(3):
                new = set(reach[i])
                for j in list(reach[i]):
                    new |= reach[j]
                if new != reach[i]:
                    reach[i] = new
                    changed = True
        cyclic = any(i in reach[i] for i in range(3))
        rules, verdict = violated_rules(parse(text))
        ok = ("NoFragmentCyclesChecker" in rules) == cyclic and (cyclic or verdict)
    return result(ok, cyclic)


def _variables_through_fragments(order: int, defined: bool, depth: int, used_in_op: bool, opname: int = 0) -> bool:
    """
    pre: 0 <= order < 6 and 0 <= depth <= 3 and 0 <= opname <= 4
    pre: shard_of(order)
    post: _
    """
    perm = pick(order, tuple(itertools.permutations(range(3))))
    # operations and fragments live in separate namespaces: the operation may be anonymous or carry the name of any of the fragments
    ON = pick(opname, ("", "Q", "Fa", "Fb", "Fc"))
    D = concrete_int(depth, 0, 3)
    DEF, UOP = (True if defined else False), (True if used_in_op else False)
    with untraced():
        # chain Fa -> Fb -> Fc; the variable is used in the fragment at depth D (0 = nowhere in fragments)
        use = "s: score(scale: $v)"
        frs = ["fragment Fa on User { name best { ...Fb } %s }" % (use if D == 1 else ""),
               "fragment Fb on User { name best { ...Fc } %s }" % (use if D == 2 else ""),
               "fragment Fc on User { name %s }" % (use if D == 3 else "")]
        op = "query %s%s { me { ...Fa %s } }" % (ON, "($v: Int)" if DEF else "", "t: score(scale: $v)" if UOP else "")
        text = op + " " + " ".join(frs[i] for i in perm)
        used = UOP or D > 0
        rules, verdict = violated_rules(parse(text))
        exp = set()
        if used and not DEF:
            exp.add("NoUndefinedVariablesChecker")
        if DEF and not used:
            exp.add("NoUnusedVariablesChecker")
        ok = set(rules) == exp and verdict == (not exp)
    return result(ok, D >= 2)


OPS = ("{ n }", "query A { n }", "query B { n }", "mutation A { bump(by: 1) }")


def _operation_names(a: int, b: int, c: int) -> bool:
    """
    pre: -1 <= a < 4 and -1 <= b < 4 and -1 <= c < 4 and a >= 0
    post: _
    """
    idx = [concrete_int(x, -1, 3) for x in (a, b, c)]
    with untraced():
        ops = [OPS[i] for i in idx if i >= 0]
        rules, verdict = violated_rules(parse(" ".join(ops)))
        names = [("anon" if i == 0 else ("A" if i in (1, 3) else "B")) for i in idx if i >= 0]
        named = [n for n in names if n != "anon"]
        exp = set()
        if len(named) != len(set(named)):
            exp.add("UniqueOperationNameChecker")
        if "anon" in names and len(names) > 1:
            exp.add("LoneAnonymousOperationChecker")
        # the property asks for exact attribution only when a single rule is broken; with two broken rules the chain
        # stops at the first one that skips the document (documented ChainedVisitor behaviour)
        ok = verdict == (not exp) and (set(rules) == exp if len(exp) <= 1 else (set(rules) and set(rules) <= exp))
    return result(ok, len(ops) > 1)


LATTICE = {"User": {"User"}, "Dog": {"Dog"}, "Cat": {"Cat"}, "Node": {"User", "Dog"}, "Pet": {"Dog", "Cat"}}
PARENT_FIELD = {"User": "me", "Node": "node", "Pet": "pets", "Dog": None, "Cat": None}


def _possible_spreads(parent: int, frag: int, named: bool) -> bool:
    """
    pre: 0 <= parent < 5 and 0 <= frag < 5
    post: _
    """
    P, F = pick(parent, tuple(LATTICE)), pick(frag, tuple(LATTICE))
    NM = True if named else False
    with untraced():
        inner = "...Fx" if NM else "... on %s { __typename }" % F
        if PARENT_FIELD[P]:
            body = "{ %s { %s } }" % (PARENT_FIELD[P], inner)
        else:
            body = "{ pets { ... on %s { %s } } }" % (P, inner)
        text = body + ((" fragment Fx on %s { __typename }" % F) if NM else "")
        rules, verdict = violated_rules(parse(text))
        possible = bool(LATTICE[P] & LATTICE[F])
        ok = ("PossibleFragmentSpreadsChecker" in rules) == (not possible) and verdict == possible
    return result(ok, True)


# ---- systematic placements: (violation atom) x (value context) x (selection context) x (sibling position).
# Every rule is about one construct; where that construct sits (which fragment / inline fragment / operation, what
# precedes or follows it, how deep inside a list or object literal) must not matter.
U, V_, N = "UniqueInputFieldNamesChecker", "ValuesOfCorrectTypeChecker", "NoUndefinedVariablesChecker"


def _bad_filter_values():
    out = []
    for key, v1, v2 in (("a", "1", "2"), ("sub", "{a: 1}", "{c: 2}")):
        for f in ("c: 3", "sub: {a: 1}", "subs: [{a: 1}]", "b: [1]"):
            k1, k2 = "%s: %s" % (key, v1), "%s: %s" % (key, v2)
            for arr in ((k1, k2, f), (k1, f, k2), (f, k1, k2)):
                out.append(("{%s}" % ", ".join(arr), U, "", True))
    out += [("{nope: 1}", V_, "", True), ("{a: \"s\"}", V_, "", True), ("{b: [1, \"s\"]}", V_, "", True),
            ("{a: $undef}", N, "", False), ("{a: $str}", "VariablesInAllowedPositionChecker", "$str: String", False),
            ("{a: 1, c: 2}", None, "", True), ("{}", None, "", True), ("{b: 1, sub: {sub: {a: 1}}}", None, "", True)]
    return out


VALUE_CONTEXTS = ("%s", "{sub: %s}", "{subs: [%s]}", "{subs: %s}", "{subs: [{a: 1}, %s]}", "{subs: [%s, {a: 1}]}", "{a: 1, sub: %s}", "{sub: %s, a: 1}", "{sub: {sub: %s}}")

SELECTION_ATOMS = (
    ("me", "ScalarLeafsChecker", ""), ("n { x }", "ScalarLeafsChecker", ""), ("nope", "FieldsOnCorrectTypeChecker", ""),
    ("me { nope }", "FieldsOnCorrectTypeChecker", ""), ("echo(nope: 1)", "KnownArgumentNamesChecker", ""),
    ("echo(x: 1, x: 2)", "UniqueArgumentNamesChecker", ""), ("echo(x: 1, r: ADMIN, x: 2)", "UniqueArgumentNamesChecker", ""),
    ("echo(x: \"s\")", V_, ""), ("echo(r: NOPE)", V_, ""), ("search(ids: [1, \"s\"])", V_, ""), ("search(ids: [[1]])", V_, ""),
    ("n @nope", "KnownDirectivesChecker", ""), ("n @deprecated", "KnownDirectivesChecker", ""),
    ("n @skip(if: true) @skip(if: false)", "UniqueDirectivesPerLocationChecker", ""),
    ("n @include(if: true) @skip(if: true) @include(if: false)", "UniqueDirectivesPerLocationChecker", ""),
    ("n @skip", "ProvidedRequiredArgumentsChecker", ""), ("n @skip(if: 1)", V_, ""), ("n @skip(if: $undef)", N, ""),
    ("n @skip(if: $str)", "VariablesInAllowedPositionChecker", "$str: String"),
    ("me { ... on Cat { name } }", "PossibleFragmentSpreadsChecker", ""), ("me { ... on Role { name } }", "FragmentsOnCompositeTypesChecker", ""),
    ("me { ...Nope }", "KnownFragmentNamesChecker", ""), ("me { ... on Nope { name } }", "FragmentsOnCompositeTypesChecker", ""),   # unknown type conditions are reported there (DESIGN 8.3)
   
    ("me { a: name a: age }", "OverlappingFieldsCanBeMergedChecker", ""), ("echo(x: 1) echo(x: 2)", "OverlappingFieldsCanBeMergedChecker", ""),
    ("x: n x: echo", "OverlappingFieldsCanBeMergedChecker", ""), ("me { name } me { name: age }", "OverlappingFieldsCanBeMergedChecker", ""),
    ("echo(x: $undef)", N, ""), ("echo(x: $str)", "VariablesInAllowedPositionChecker", "$str: String"),
    ("echo(x: $u)", "VariablesAreInputTypesChecker", "$u: User"), ("echo(x: $k)", "KnownTypeNamesChecker", "$k: Nope"),
    ("n", "NoUnusedVariablesChecker", "$z: Int"), ("echo(x: $a)", "UniqueVariableNamesChecker", "$a: Int, $a: Int"),
    ("echo(x: $i)", "ValuesOfCorrectTypeChecker", "$i: Int = \"s\""),
    ("n", None, ""), ("echo(x: $i)", None, "$i: Int"), ("me { name ... on User { age } }", None, ""), ("echo(x: $i) @include(if: $b)", None, "$i: Int = 3, $b: Boolean!"),
    # same response key in mutually exclusive typed branches, one side inside a type-less / directive-only inline fragment (which inherits the branch's type)
    ("pets { ... on Dog { ... { k: barks } } ... on Cat { k: lives } }", "OverlappingFieldsCanBeMergedChecker", ""),
    ("pets { ... on Dog { ... @include(if: true) { k: barks } } ... on Cat { ... { k: lives } } }", "OverlappingFieldsCanBeMergedChecker", ""),
    ("pets { ... on Dog { ... { k: name ... @skip(if: false) { j: id } } } ... on Cat { k: name j: name } }", "OverlappingFieldsCanBeMergedChecker", ""),
    ("pets { ... on Dog { ... { k: name o: owner { name } } } ... on Cat { ... @include(if: true) { k: name o: owner { name } } } }", None, ""),
    ("animals { ... on Dog { ... { s: sound(times: 1) } } ... on Cat { s: sound(times: 2) } }", None, ""),
)


def _atoms():
    out = []
    for text, rule, decl, const in _bad_filter_values():
        for vc in VALUE_CONTEXTS:
            out.append(("search(f: %s)" % (vc % text), rule, decl))
            if const:
                out.append(("search(f: $q)", rule, "$q: Filter = %s" % (vc % text)))
    return tuple(out) + SELECTION_ATOMS


ATOMS = _atoms()
# %V = variable definitions of the operation the atom (transitively) belongs to; § = the atom with its siblings
SELECTION_CONTEXTS = (
    "query %V { § }",
    "query %V { ... on Query { § } }",
    "query %V { ... { § } }",
    "query %V { ... @include(if: true) { ... on Query { § } } }",
    "query %V { ...Q } fragment Q on Query { § }",
    "fragment Q on Query { § } query %V { ...Q }",
    "query %V { ...Q } fragment Q on Query { ...R } fragment R on Query { § }",
    "fragment R on Query { § } fragment Q on Query { ... on Query { ...R } } query %V { __typename ...Q }",
    "query A { n } query B %V { § }",
    "query B %V { § } query A { n }",
    "query A %V { ...Q } query B %V { n ...Q } fragment Q on Query { § }",
)
SIBLINGS = ("%s", "__typename %s", "%s __typename", "zz: n %s yy: n")
_BASE_RULES = {}


def placement_text(A_, C, P):
    text, rule, decl = ATOMS[A_]
    return SELECTION_CONTEXTS[C].replace("%V", "(%s)" % decl if decl else "").replace("§", SIBLINGS[P] % text)


def _placements(atom: int, ctx: int, pos: int) -> bool:
    """
    pre: 0 <= atom < len(ATOMS) and 0 <= ctx < len(SELECTION_CONTEXTS) and 0 <= pos < len(SIBLINGS)
    pre: thorough() or ctx == 0 or pos == 0
    pre: shard_of(atom)
    post: _
    """
    A_ = concrete_int(atom, 0, len(ATOMS) - 1)
    C = concrete_int(ctx, 0, len(SELECTION_CONTEXTS) - 1)
    P = concrete_int(pos, 0, len(SIBLINGS) - 1)
    with untraced():
        rule = ATOMS[A_][1]
        if A_ not in _BASE_RULES:
            _BASE_RULES[A_] = violated_rules(parse(placement_text(A_, 0, 0)))[0]
        rules, verdict = violated_rules(parse(placement_text(A_, C, P)))
        if rule is None:
            ok = verdict and not rules
        else:
            ok = (not verdict) and rule in rules and rules == _BASE_RULES[A_]
    return result(ok, rule is not None)


# ---- directive locations: every directive x every executable location x nesting
from py_gql.schema import Directive, Argument as _Argument, Boolean as _Boolean   # noqa: E402

EXEC_LOCATIONS = ("QUERY", "MUTATION", "FIELD", "FRAGMENT_DEFINITION", "FRAGMENT_SPREAD", "INLINE_FRAGMENT")
DIRECTIVE_USES = tuple(("on" + loc.title().replace("_", ""), (loc,), "") for loc in EXEC_LOCATIONS) + (
    ("multi", ("FIELD", "QUERY", "FRAGMENT_DEFINITION"), ""), ("skip", ("FIELD", "FRAGMENT_SPREAD", "INLINE_FRAGMENT"), "(if: true)"),
    ("include", ("FIELD", "FRAGMENT_SPREAD", "INLINE_FRAGMENT"), "(if: false)"), ("deprecated", (), ""), ("nope", None, ""))
# (location, template) - %D is the directive use
PLACEMENTS = (
    ("QUERY", "query %D { n }"), ("QUERY", "query Q %D { n } query R { n }"), ("QUERY", "query R { n } query Q ($v: Int) %D { echo(x: $v) }"),
    ("MUTATION", "mutation %D { bump(by: 1) }"), ("MUTATION", "query Q { n } mutation M %D { bump(by: 1) }"),
    ("FIELD", "{ n %D }"), ("FIELD", "{ me { name %D } }"), ("FIELD", "{ me %D { name } }"), ("FIELD", "{ ... on Query { me { best { age %D } } } }"),
    ("FIELD", "{ ...F } fragment F on Query { n %D }"), ("FIELD", "mutation { bump(by: 1) %D }"), ("FIELD", "{ a: n b: n %D }"),
    ("FRAGMENT_DEFINITION", "{ ...F } fragment F on Query %D { n }"), ("FRAGMENT_DEFINITION", "fragment G on User %D { name } { me { ...G } }"),
    ("FRAGMENT_SPREAD", "{ ...F %D } fragment F on Query { n }"), ("FRAGMENT_SPREAD", "{ me { ...G %D } } fragment G on User { name }"),
    ("FRAGMENT_SPREAD", "{ ...F } fragment F on Query { me { ...G %D } } fragment G on User { name }"),
    ("INLINE_FRAGMENT", "{ ... %D { n } }"), ("INLINE_FRAGMENT", "{ ... on Query %D { n } }"), ("INLINE_FRAGMENT", "{ me { ... on User %D { name } } }"),
    ("INLINE_FRAGMENT", "{ ...F } fragment F on Query { ... %D { n } }"),
)
_DSCHEMA = None


def directive_schema():
    global _DSCHEMA
    if _DSCHEMA is None:
        _DSCHEMA = G.build_real_schema(directives=[Directive(name, list(locs)) for name, locs, _ in DIRECTIVE_USES if name.startswith("on") or name == "multi"])
    return _DSCHEMA


def _directive_locations(d: int, pl: int, twice: bool) -> bool:
    """
    pre: 0 <= d < len(DIRECTIVE_USES) and 0 <= pl < len(PLACEMENTS)
    post: _
    """
    name, locs, args = pick(d, DIRECTIVE_USES)
    loc, tpl = pick(pl, PLACEMENTS)
    TW = True if twice else False
    if TW and name == "onField":
        return result(True, False)          # would be a duplicate (another rule)
    with untraced():
        use = "@%s%s" % (name, args)
        text = tpl.replace("%D", use + (" @onField" if TW else ""))          # a second, always-known directive next to it must not matter
        s = directive_schema()
        type_info = TypeInfoVisitor(s)
        visitors = [cls(s, type_info) for cls in SPECIFIED_RULES]
        ChainedVisitor(type_info, *visitors).visit(parse(text))
        rules = sorted({type(v).__name__ for v in visitors if v.errors})
        verdict = not validate_ast(s, parse(text)).errors
        allowed = locs is not None and loc in locs
        second_allowed = (not TW) or loc == "FIELD"
        ok = ("KnownDirectivesChecker" in rules) == (not (allowed and second_allowed))
        if allowed and second_allowed:
            ok = ok and verdict and not rules
        else:
            ok = ok and not verdict
    return result(ok, True)


# ---- All Variable Usages Are Allowed (spec 5.8.5) as a product: variable type x default x position type x position default x nesting
VAR_TYPES = ("Int", "Int!", "String", "[Int]", "[Int!]", "[Int]!", "[Int!]!", "Boolean", "Boolean!", "[[Int]]")
VAR_DEFAULTS = ("none", "value", "null")
VAR_POSITIONS = (        # (selection using $v, type of the position, the position declares a default)
    ("echo(x: $v)", "Int", True), ("req(n: $v, l: [1])", "Int!", False), ("req(n: 1, m: $v, l: [1])", "Int!", True), ("req(n: 1, l: $v)", "[Int!]!", False),
    ("search(ids: $v)", "[Int]", False), ("search(f: {a: $v})", "Int", False), ("search(f: {c: $v})", "Int", True), ("search(f: {b: $v})", "[Int]", False),
    ("search(ids: [$v])", "Int", False), ("req(n: 1, l: [$v])", "Int!", False), ("n @skip(if: $v)", "Boolean!", False), ("search(f: {sub: {subs: [{a: $v}]}})", "Int", False),
    ("me { scaled(by: $v) }", "Int!", False), ("me { score(scale: $v) }", "Int", True),
)
VAR_VIA = ("query (%D) { %S }", "query (%D) { ...F } fragment F on Query { %S }", "fragment G on Query { %S } query (%D) { ...F } fragment F on Query { ... on Query { ...G } }")


def _split(t):
    return (t[:-1], True) if t.endswith("!") else (t, False)


def types_compatible(var, loc):
    """AreTypesCompatible(variableType, locationType), spec 5.8.5"""
    vb, vnn = _split(var)
    lb, lnn = _split(loc)
    if lnn:
        return vnn and types_compatible(vb, lb)
    if vnn:
        return types_compatible(vb, loc)
    if lb.startswith("["):
        return vb.startswith("[") and types_compatible(vb[1:-1], lb[1:-1])
    if vb.startswith("["):
        return False
    return vb == lb


def usage_allowed(var, vdefault, loc, loc_has_default):
    """IsVariableUsageAllowed, spec 5.8.5"""
    lb, lnn = _split(loc)
    if lnn and not var.endswith("!"):
        if not (vdefault == "value" or loc_has_default):
            return False
        return types_compatible(var, lb)
    return types_compatible(var, loc)


def _variable_positions(vt: int, vd: int, pos: int, via: int) -> bool:
    """
    pre: 0 <= vt < len(VAR_TYPES) and 0 <= vd < 3 and 0 <= pos < len(VAR_POSITIONS) and 0 <= via < len(VAR_VIA)
    pre: shard_of(vt)
    post: _
    """
    VT, VD = pick(vt, VAR_TYPES), pick(vd, VAR_DEFAULTS)
    sel, loc, loc_default = pick(pos, VAR_POSITIONS)
    tpl = pick(via, VAR_VIA)
    if VT.endswith("!") and VD != "none":
        return result(True, False)           # defaults on required variables: kept out (older drafts forbid them)
    with untraced():
        base = VT.replace("[", "").replace("]", "").replace("!", "")
        lit = {"Int": "1", "String": '"x"', "Boolean": "true"}[base]
        for _ in range(VT.count("[")):
            lit = "[%s]" % lit
        decl = "$v: %s%s" % (VT, "" if VD == "none" else (" = " + (lit if VD == "value" else "null")))
        text = tpl.replace("%D", decl).replace("%S", sel)
        rules, verdict = violated_rules(parse(text))
        exp = usage_allowed(VT, VD, loc, loc_default)
        ok = ("VariablesInAllowedPositionChecker" in rules) == (not exp) and verdict == (not rules)
        if exp:
            ok = ok and verdict
    return result(ok, True)


# ---- the SAME argument value spelled differently on two merged fields: equal values are equal arguments (insignificant characters are insignificant inside literals too)
SPELLINGS = (
    ("ids", ("[1, 2]", "[1 2]", "[1,2,]", "[ 1 , 2 ]", "[1 #c\n 2]", "[1,,, 2]", "[\n1\n2\n]")),
    ("ids", ("[]", "[ ]", "[,]", "[#c\n]")),
    ("f", ("{a: 1, b: [2]}", "{a:1 b:[2]}", "{ a : 1 , b : [ 2 ] }", "{a: 1, #c\n b: [2,]}")),
    ("f", ("{sub: {a: 1}}", "{sub:{a:1}}", "{ sub: { a: 1 , } }")),
    ("s", ("\"A\"", "\"\\u0041\"")),
    ("s", ("\"a b\"", "\"a\\u0020b\"")),
)
OTHER_VALUES = {"ids": "[2, 1]", "f": "{a: 2}", "s": "\"B\""}
SPELL_SHAPES = ("{ search(%A) search(%B) }", "{ search(%A) ... on Query { search(%B) } }", "{ ...F search(%B) } fragment F on Query { search(%A) }",
                "{ a: me { name } x: search(%A) x: search(%B) }")


def _argument_spellings(group: int, i: int, j: int, shape: int, differ: bool) -> bool:
    """
    pre: 0 <= group < len(SPELLINGS) and 0 <= i < 7 and 0 <= j < 7 and 0 <= shape < len(SPELL_SHAPES)
    pre: shard_of(shape)
    post: _
    """
    arg, forms = pick(group, SPELLINGS)
    if i >= len(forms) or j >= len(forms):
        return result(True, False)
    A1, A2 = forms[concrete_int(i, 0, 6)], forms[concrete_int(j, 0, 6)]
    SH, DF = pick(shape, SPELL_SHAPES), (True if differ else False)
    with untraced():
        if DF:
            A2 = OTHER_VALUES[arg]           # a really different value: the conflict must be reported
        text = SH.replace("%A", "%s: %s" % (arg, A1)).replace("%B", "%s: %s" % (arg, A2))
        rules, verdict = violated_rules(parse(text))
        if DF:
            ok = rules == ["OverlappingFieldsCanBeMergedChecker"] and not verdict
        else:
            ok = rules == [] and verdict
    return result(ok, not DF)


CONDITIONS = [
    Cond(name="argument_spellings", fn=_argument_spellings, quick=60, thorough=120, shards_quick=4, shards_thorough=4,
         bound="two merged fields carrying the same argument value in two SPELLINGS (list / object / nested literals with other blanks, commas, comments, line breaks inside; strings with and without \\u escapes; every ordered pair of 2..7 "
               "spellings of 6 values) x 4 ways of merging (same set, inline fragment, named fragment, aliases): no error; with a really different value: exactly the field-merging rule reports",
         symbolic={"group,i,j,shape": "choice", "differ": "choice: same value / another value"}, witness={"group": 0, "i": 0, "j": 1, "shape": 0, "differ": False}),
    Cond(
        name="metamorphic", fn=_metamorphic, quick=250, thorough=900, per_path=60, shards_quick=16, shards_thorough=30,
        bound="%d documents (valid templates + adversarial invalid ones) x subsets of 8 validity-preserving transformations (reverse/rotate definitions, reverse selections, reverse arguments and object fields, "
              "consistent renaming of fragments / variables / aliases / operations; quick: subsets of size <= 2, thorough: all 256) x 4 re-spellings (indent 2/4, extra commas, comments + BOM + tabs)" % len(SOURCES),
        symbolic={"src": "choice: document", "mask": "choice: which transformations", "spelling": "choice: re-spelling"},
        assumptions=["the set of violated rules is read from the same visitor chain default_validator builds; the verdict from validate_ast"],
        witness={"src": 5, "mask": 3, "spelling": 0},
    ),
    Cond(name="mutants", fn=_mutants, quick=60, thorough=120, bound="%d single-rule mutants (every one of the 26 rules at least once) x 8 reorderings: reported by the rule it breaks" % len(MUTANTS),
         symbolic={"m": "choice: mutant", "mask": "choice: reorderings"}, witness={"m": 0, "mask": 0}),
    Cond(name="placements", fn=_placements, quick=200, thorough=900, per_path=60, shards_quick=16, shards_thorough=32,
         bound="%d atoms (one rule violation each, or a valid control; input-object violations in %d nesting contexts, also as variable defaults) x %d selection contexts (operation, typed / untyped / directive inline fragment, "
               "named fragments before / after / nested / shared, second operation) x %d sibling positions (quick: context or position fixed to the first): the rule reports, the verdict is invalid and the reported rule set "
               "equals that of the plain placement; controls stay valid" % (len(ATOMS), len(VALUE_CONTEXTS), len(SELECTION_CONTEXTS), len(SIBLINGS)),
         symbolic={"atom": "choice: violation", "ctx": "choice: selection context", "pos": "choice: siblings"}, witness={"atom": 2, "ctx": 4, "pos": 0}),
    Cond(name="directive_locations", fn=_directive_locations, quick=60, thorough=120,
         bound="%d directives (one custom directive per executable location, a multi-location one, @skip, @include, @deprecated, an unknown one) x %d placements over the 6 executable locations of a query/mutation schema "
               "(root and nested, inside fragments, second operation) x alone / followed by a second directive: KnownDirectives reports iff the location is not declared" % (len(DIRECTIVE_USES), len(PLACEMENTS)),
         symbolic={"d": "choice: directive", "pl": "choice: placement", "twice": "choice"}, witness={"d": 2, "pl": 5, "twice": False}),
    Cond(name="variable_positions", fn=_variable_positions, quick=100, thorough=200, per_path=60, shards_quick=len(VAR_TYPES), shards_thorough=len(VAR_TYPES),
         bound="%d variable types x default none / value / null x %d positions (nullable, non-null, with and without a declared default, list, list item, input-object field at depth 1 and 3, directive argument, nested field) "
               "x 3 ways of reaching the usage (operation, fragment, nested fragments defined before the operation): VariablesInAllowedPosition reports exactly when IsVariableUsageAllowed is false, and nothing else is reported" % (len(VAR_TYPES), len(VAR_POSITIONS)),
         symbolic={"vt": "choice: variable type", "vd": "choice: variable default", "pos": "choice: position", "via": "choice: nesting"},
         assumptions=["reference: IsVariableUsageAllowed / AreTypesCompatible transcribed from spec 5.8.5"], witness={"vt": 0, "vd": 1, "pos": 1, "via": 1}),
    Cond(name="cycles", fn=_cycles, quick=150, thorough=600, shards_quick=16, shards_thorough=16, per_path=60,
         bound="EVERY directed spread graph on 3 fragments (512 adjacency matrices incl. self loops) x all 6 definition orders x 5 placements of a spread (below a field, directly, at two depths of the same fragment, directly and below a field, "
               "under two sibling fields; quick: the extra placements in one order): NoFragmentCycles reports iff some fragment reaches itself, and no rule raises (the whole chain runs)",
         symbolic={"adj": "choice: adjacency matrix", "order": "choice: definition order", "place": "choice: where the spreads sit"}, witness={"adj": 2, "order": 0, "place": 0}),
    Cond(name="variables_through_fragments", fn=_variables_through_fragments, quick=60, thorough=120, shards_quick=6, shards_thorough=6,
         bound="variable used at depth 0..3 of a fragment chain and/or in the operation, defined or not, all 6 fragment definition orders, the operation anonymous / named Q / named like one of the fragments (separate namespaces): exactly NoUndefinedVariables / NoUnusedVariables as the spec says",
         symbolic={"order": "choice", "defined": "choice", "depth": "choice", "used_in_op": "choice"}, witness={"order": 0, "defined": True, "depth": 3, "used_in_op": False, "opname": 0}),
    Cond(name="operation_names", fn=_operation_names, quick=60, thorough=120,
         bound="every sequence of 1..3 operations from {anonymous, A, B, mutation A}: UniqueOperationNames and LoneAnonymousOperation exactly as the spec says",
         symbolic={"a,b,c": "choice"}, witness={"a": 1, "b": 2, "c": -1}),
    Cond(name="possible_spreads", fn=_possible_spreads, quick=60, thorough=120,
         bound="parent type x fragment type over {User, Dog, Cat, Node, Pet}, inline and named: spread allowed iff the possible-type sets intersect",
         symbolic={"parent,frag,named": "choice"}, witness={"parent": 0, "frag": 3, "named": True}),
]
