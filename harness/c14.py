"""C14 - extending, cloning and transforming schemas keeps them closed and intact."""
import json

from vf import known  # noqa: F401
from vf.spec import Cond, result, untraced, retraced, shard_of, thorough, concrete_int, pick  # noqa: F401

from py_gql import build_schema, graphql_blocking
from py_gql._string_utils import snakecase_to_camelcase
from py_gql.schema import (
    Argument, Directive, EnumType, EnumValue, Field, ID, InputField, InputObjectType, Int, InterfaceType, ListType, NonNullType, ObjectType,
    Schema, String, UnionType, SPECIFIED_SCALAR_TYPES, SPECIFIED_DIRECTIVES,
)
from py_gql.schema.introspection import is_introspection_type
from py_gql.schema.transforms import CamelCaseSchemaTransform, VisibilitySchemaTransform, transform_schema
from py_gql.sdl import extend_schema
from py_gql.exc import SchemaValidationError
from py_gql.utilities import introspection_query
from harness import sdlgen as S


def _res_a(root, ctx, info, **kw): return {"id": "a1", "first_name": "Ann", "n": [1], "__typename__": "A"}   # noqa: E704
def _res_name(root, ctx, info, **kw): return root["first_name"].upper()                                     # noqa: E704
def _default_b(root, ctx, info, **kw): return 7                                                               # noqa: E704
def _resolve_node(value, ctx, info): return "A"                                                               # noqa: E704
def _resolve_u(value, ctx, info): return "A"                                                                  # noqa: E704
def _sub(root, ctx, info, **kw): return None                                                                  # noqa: E704
def _res_echo(root, ctx, info, **kw): return json.dumps(kw, sort_keys=True)                                  # noqa: E704
def _schema_default(root, ctx, info, **kw):
    from py_gql.execution.default_resolver import default_resolver
    return 42 if info.field_definition.name in ("plain", "s2") else default_resolver(root, ctx, info, **kw)


def code_source():
    node = InterfaceType("Node", [Field("id", NonNullType(ID), description="the id")], resolve_type=_resolve_node, description="a node")
    color = EnumType("Color", [EnumValue("RED", 1, description="red"), EnumValue("BLUE", "blue", deprecation_reason="no blue")], description="colors")
    inp = InputObjectType("In", [InputField("f", NonNullType(Int), description="f"), InputField("some_value", String, default_value="s", python_name="sv"),
                                 InputField("g", color, default_value=1), InputField("nul", String, default_value=None)], description="input")
    a = ObjectType("A", [
        Field("id", NonNullType(ID)), Field("first_name", String, resolver=_res_name, description="first name", python_name="first_name"),
        Field("n", ListType(NonNullType(Int)), deprecation_reason="no n"), Field("self_ref", lambda: a),
    ], interfaces=[node], description="type A")
    b = ObjectType("B", [Field("b_value", Int, description="b")], default_resolver=_default_b)
    u = UnionType("U", [a, b], resolve_type=_resolve_u, description="a union")
    q = ObjectType("Query", [
        Field("a", a, resolver=_res_a), Field("b", b, resolver=lambda *_, **__: {}), Field("u", u, resolver=_res_a), Field("node", node, resolver=_res_a),
        Field("plain", Int),            # resolved by the SCHEMA-WIDE default resolver
        Field("echo_args", String, args=[Argument("in_value", inp, default_value={"f": 1, "sv": "d"}, python_name="inv", description="arg"),
                                         Argument("c", color, default_value="blue"), Argument("k", Int),
                                         Argument("nul", Int, default_value=None, description="defaults to null")], resolver=_res_echo),
    ])
    sub = ObjectType("Subscription", [Field("ticks", Int, subscription_resolver=_sub)])
    only = ObjectType("OnlyImpl", [Field("id", NonNullType(ID)), Field("w", Int, resolver=_default_b)], interfaces=[node], description="no field refers to this type")
    loose = EnumType("Loose", [EnumValue("L", 0)], description="nothing refers to this type")
    tag = Directive("tag", ["FIELD_DEFINITION"], args=[Argument("v", Int, default_value=1), Argument("w", Int, default_value=None)], description="a tag")
    # a directive whose arguments are of USER types (input object, enum): they are references that every transform has to re-point as well
    flag = Directive("flag", ["FIELD", "FIELD_DEFINITION"], args=[Argument("flag_options", ListType(NonNullType(inp)), default_value=[{"f": 2, "sv": "x"}]), Argument("shade", color)],
                     description="a flag")
    schema = Schema(q, subscription_type=sub, types=[a, b, u, node, color, inp, only, loose], directives=[tag, flag])
    schema.default_resolver = _schema_default
    return schema


def sdl_source(default=10):
    s = build_schema(S.render(S.base_record(dict(desc=True, dep=True, default=default, recursion=3))))
    s.register_resolver("Query", "s", lambda *a, **k: "ok")
    s.register_default_resolver("B", _default_b)
    s.types["U"].resolve_type = _resolve_u
    s.types["Node"].resolve_type = _resolve_node
    s.default_resolver = _schema_default
    return s


def sdl_source_null():
    return sdl_source(3)            # the defaulted argument is written `= null`


SOURCES = (code_source, sdl_source, sdl_source_null)


def named(t):
    while isinstance(t, (ListType, NonNullType)):
        t = t.type
    return t


def closed(schema):
    """every reachable type is the object registered under its name; returns '' or the first problem"""
    reg = schema.types

    def chk(t, where):
        n = named(t)
        if reg.get(n.name) is not n:
            return "%s -> %s is not the registered object" % (where, n.name)
        return ""
    for root in (schema.query_type, schema.mutation_type, schema.subscription_type):
        if root is not None:
            p = chk(root, "root")
            if p:
                return p
    for name, t in reg.items():
        if isinstance(t, (ObjectType, InterfaceType)):
            for f in t.fields:
                p = chk(f.type, "%s.%s" % (name, f.name))
                if p:
                    return p
                for a in f.arguments:
                    p = chk(a.type, "%s.%s(%s)" % (name, f.name, a.name))
                    if p:
                        return p
            if isinstance(t, ObjectType):
                for i in t.interfaces:
                    p = chk(i, "%s implements" % name)
                    if p:
                        return p
        elif isinstance(t, UnionType):
            for m in t.types:
                p = chk(m, "%s member" % name)
                if p:
                    return p
        elif isinstance(t, InputObjectType):
            for f in t.fields:
                p = chk(f.type, "%s.%s" % (name, f.name))
                if p:
                    return p
    for d in schema.directives.values():
        for a in d.arguments:
            p = chk(a.type, "@%s(%s)" % (d.name, a.name))
            if p:
                return p
    return derived_indexes(schema)


def derived_indexes(schema):
    """the indexes the schema derives from its registry (implementations, possible types) agree with the registry: they are what queries and
    introspection consult, so a removed / replaced type that survives there is still reachable"""
    reg = schema.types
    for name, t in reg.items():
        if isinstance(t, InterfaceType):
            exp = sorted(o.name for o in reg.values() if isinstance(o, ObjectType) and any(i.name == name for i in o.interfaces))
            listed = list(schema.implementations.get(name, []))
            for o in listed:
                if reg.get(o.name) is not o:
                    return "implementations[%s] lists %s which is not the registered object" % (name, o.name)
            if sorted(o.name for o in listed) != exp:
                return "implementations[%s] = %r, the registry says %r" % (name, sorted(o.name for o in listed), exp)
        if isinstance(t, (InterfaceType, UnionType)):
            poss = list(schema.get_possible_types(t))
            for o in poss:
                if reg.get(o.name) is not o:
                    return "get_possible_types(%s) yields %s which is not the registered object" % (name, o.name)
            exp = sorted(m.name for m in t.types) if isinstance(t, UnionType) else sorted(
                o.name for o in reg.values() if isinstance(o, ObjectType) and any(i.name == name for i in o.interfaces))
            if sorted(o.name for o in poss) != exp:
                return "get_possible_types(%s) = %r, the registry says %r" % (name, sorted(o.name for o in poss), exp)
    return ""


def attrs(schema, rename=lambda x: x):
    """element path -> attributes that an operation must preserve when it does not target the element"""
    out = {}
    for name, t in schema.types.items():
        if is_introspection_type(t) or t in SPECIFIED_SCALAR_TYPES:
            continue
        out[(name,)] = ("type", type(t).__name__, t.description, getattr(t, "default_resolver", None), getattr(t, "resolve_type", None))
        if isinstance(t, (ObjectType, InterfaceType)):
            for f in t.fields:
                out[(name, rename(f.name))] = ("field", S.tstr(f.type), f.description, f.deprecation_reason if f.deprecated else None, f.resolver, f.subscription_resolver, f.python_name)
                for a in f.arguments:
                    out[(name, rename(f.name), rename(a.name))] = ("arg", S.tstr(a.type), a.description, a.python_name, ("d", a.default_value) if a.has_default_value else None)
            if isinstance(t, ObjectType):
                out[(name, "implements")] = tuple(i.name for i in t.interfaces)
        elif isinstance(t, UnionType):
            out[(name, "members")] = tuple(m.name for m in t.types)
        elif isinstance(t, EnumType):
            for v in t.values:
                out[(name, v.name)] = ("value", v.value, v.description, v.deprecation_reason if v.deprecated else None)
        elif isinstance(t, InputObjectType):
            for f in t.fields:
                out[(name, rename(f.name))] = ("input", S.tstr(f.type), f.description, f.python_name, ("d", f.default_value) if f.has_default_value else None)
    for name, d in schema.directives.items():
        if d in SPECIFIED_DIRECTIVES:
            continue
        out[("@" + name,)] = ("directive", tuple(d.locations), d.description)
        for a in d.arguments:
            out[("@" + name, rename(a.name))] = ("arg", S.tstr(a.type), a.description, a.python_name, ("d", a.default_value) if a.has_default_value else None)
    return out


HIDE = (("type", "B"), ("type", "U"), ("type", "Color"), ("field", "A", "n"), ("field", "Query", "u"), ("input", "In", "g"), ("directive", "tag"), ("type", "Node"),
        ("type", "Subscription"), ("type", "Mutation"))          # root operation types can be hidden too
NHIDE = len(HIDE)
ALLHIDE = (1 << NHIDE) - 1


class Vis(VisibilitySchemaTransform):
    def __init__(self, mask):
        self.hidden = [h for i, h in enumerate(HIDE) if mask >> i & 1]

    def is_type_visible(self, name):
        return ("type", name) not in self.hidden

    def is_field_visible(self, typename, fieldname):
        return ("field", typename, fieldname) not in self.hidden

    def is_input_field_visible(self, typename, fieldname):
        return ("input", typename, fieldname) not in self.hidden

    def is_directive_visible(self, name):
        return ("directive", name) not in self.hidden


EXTENSIONS = (
    "extend type B { extra: Int }",
    "extend type Query { more(x: In): A }",
    "type New { a: A } extend type Query { new_type: New }",
    "extend enum Color { PURPLE }",
    "extend union U = New2 type New2 { z: Int }",
    "extend input In { later: Int = 3 }",
)

OPS = ("clone", "camel", "extend", "vis")


def removed_by(mask):
    """element-path prefixes hidden by the mask, plus what must disappear with them"""
    hidden = [h for i, h in enumerate(HIDE) if mask >> i & 1]
    return hidden


def is_targeted(path, op, arg, src_schema):
    """whether the operation may legitimately change the element at `path`"""
    if op == "clone":
        return False
    if op == "camel":
        return False        # compared through the renaming
    if op == "extend":
        ext = EXTENSIONS[arg]
        tname = ext.split()[2] if ext.startswith("extend") else None
        targets = {"extend type B": "B", "extend type Query": "Query", "extend enum Color": "Color", "extend union U": "U", "extend input In": "In"}
        t = [v for k, v in targets.items() if k in ext]
        if "extend input In" in ext and len(path) == 3:
            return True        # defaults of input-object type legitimately gain the new defaulted field (C11: defaults are coerced to the extended type)
        # only the member list of the extended type changes (new members); existing members must be preserved
        return path[0] in t and len(path) == 2 and path[1] in ("members",)
    return False


def apply_op(schema, op, arg):
    if op == "clone":
        return schema.clone()
    if op == "camel":
        return transform_schema(schema, CamelCaseSchemaTransform())
    if op == "extend":
        return extend_schema(schema, EXTENSIONS[arg], strict=True)
    return transform_schema(schema, Vis(arg))


def introspected_names(schema):
    res = graphql_blocking(schema, "{ __schema { types { name fields { name } inputFields { name } } directives { name } } }")
    assert not res.errors, res.errors
    d = res.data["__schema"]
    names = set()
    for t in d["types"]:
        names.add(("type", t["name"]))
        for f in t.get("fields") or []:
            names.add(("field", t["name"], f["name"]))
        for f in t.get("inputFields") or []:
            names.add(("input", t["name"], f["name"]))
    for x in d["directives"]:
        names.add(("directive", x["name"]))
    return names


def registry(schema):
    """the schema-level resolver registries (identity of every registered callable)"""
    return (tuple(sorted((t, f, id(fn)) for t, m in schema.resolvers.items() for f, fn in m.items())),
            tuple(sorted((t, f, id(fn)) for t, m in schema.subscriptions.items() for f, fn in m.items())),
            tuple(sorted((t, id(fn)) for t, fn in schema.default_resolvers.items())), id(schema.default_resolver))


PROBES = ("{ a { id first_name n } b { b_value } u { __typename } echo_args(k: 1) plain }", "{ s e }", "{ s e }")


def probe(schema, src):
    return json.dumps(graphql_blocking(schema, PROBES[src]).response(), sort_keys=True, default=repr)


def _new_resolver(root, ctx, info, **kw): return "overridden"      # noqa: E704
def _new_default(root, ctx, info, **kw): return "overridden-default"   # noqa: E704
def _new_sub(root, ctx, info, **kw): return None                        # noqa: E704


MUTATORS = ("none", "register_resolver on every object field", "register_default_resolver on every object type", "register_subscription on every subscription field")


def mutate(schema, how):
    """what a user does with a derived schema through the public registration API; must never show in the schema it was derived from"""
    if how == 0:
        return
    for name, t in list(schema.types.items()):
        if not isinstance(t, ObjectType) or is_introspection_type(t):
            continue
        if how == 2:
            schema.register_default_resolver(name, _new_default, allow_override=True)
            continue
        for f in t.fields:
            if how == 1:
                schema.register_resolver(name, f.name, _new_resolver, allow_override=True)
            elif how == 3 and t is schema.subscription_type:
                schema.register_subscription(name, f.name, _new_sub, allow_override=True)


def _subset(v, back, hidden=()):
    """every key / item of the stored default is found again (nested defaults may be filled in on top)"""
    if isinstance(v, dict):
        return isinstance(back, dict) and all(known.c14_hidden_input_field_in_default(hidden, k) or (k in back and _subset(x, back[k], hidden)) for k, x in v.items())
    if isinstance(v, (list, tuple)):
        return isinstance(back, list) and len(v) == len(back) and all(_subset(a, b, hidden) for a, b in zip(v, back))
    return v == back


def defaults_readable(schema, hidden=()):
    """every declared default survives being written as a literal (what the printer and introspection do) and read back"""
    from py_gql.utilities import ast_node_from_value, value_from_ast
    sites = []
    for name, t in schema.types.items():
        if is_introspection_type(t):
            continue
        if isinstance(t, (ObjectType, InterfaceType)):
            sites += [("%s.%s(%s)" % (name, f.name, a.name), a) for f in t.fields for a in f.arguments]
        elif isinstance(t, InputObjectType):
            sites += [("%s.%s" % (name, f.name), f) for f in t.fields]
    for d in schema.directives.values():
        sites += [("@%s(%s)" % (d.name, a.name), a) for a in d.arguments]
    for where, site in sites:
        if not site.has_default_value:
            continue
        try:
            back = value_from_ast(ast_node_from_value(site.default_value, site.type), site.type)
        except Exception as e:  # noqa
            return "default of %s cannot be written / read back: %r" % (where, e)
        if not _subset(site.default_value, back, hidden):
            return "default of %s reads back as %r instead of %r" % (where, back, site.default_value)
    return ""


def check_step(source, before_attrs, before_sdl, result_schema, op, arg):
    p = closed(result_schema)
    if p:
        return "result not closed: " + p
    p = defaults_readable(result_schema, [h[2] for h in (removed_by(arg) if op == "vis" else []) if h[0] == "input"])
    if p:
        return "result: " + p
    p = closed(source)
    if p:
        return "source no longer closed: " + p
    if attrs(source) != before_attrs:
        diffkeys = [k for k in before_attrs if attrs(source).get(k) != before_attrs[k]]
        return "source modified at %r" % (diffkeys[:3],)
    if source.to_string() != before_sdl:
        return "source prints differently"
    try:
        source.validate()
        result_schema.validate()
    except Exception as e:  # noqa
        return "validate: %r" % (e,)
    rename = snakecase_to_camelcase if op == "camel" else (lambda x: x)
    got = attrs(result_schema)
    exp = attrs(source, rename) if op == "camel" else before_attrs
    hidden = removed_by(arg) if op == "vis" else []
    for path, val in exp.items():
        if op == "vis":
            # hidden elements (and elements that depend on a hidden type) may go; everything else stays
            if path not in got:
                continue
        if is_targeted(path, op, arg, source):
            continue
        if path not in got:
            return "%r disappeared" % (path,)
        g, e = got[path], val
        if op == "vis" and len(path) == 2 and path[1] in ("members", "implements"):
            if not set(g) <= set(e):
                return "%r gained members %r" % (path, g)
            continue
        if g != e:
            return "%r changed: %r -> %r" % (path, e, g)
    if op == "vis":
        names = introspected_names(result_schema)
        for h in hidden:
            if h in names:
                return "hidden element %r still visible through introspection" % (h,)
            key = (h[1],) if h[0] in ("type",) else (("@" + h[1],) if h[0] == "directive" else (h[1], h[2]))
            if key in got:
                return "hidden element %r still in the schema" % (h,)
            if h[0] == "type":
                # a hidden ROOT operation type must be gone as a root as well: not introspectable, not executable
                for attr, op in (("query_type", "query"), ("mutation_type", "mutation"), ("subscription_type", "subscription")):
                    root = getattr(result_schema, attr)
                    if root is not None and root.name == h[1] and attr != "query_type":
                        return "hidden root type %r is still the %s root" % (h[1], op)
    return ""


def _op_sequences(src: int, o1: int, a1: int, o2: int, a2: int, o3: int, a3: int, mut: int = 0, chain: bool = False) -> bool:
    """
    pre: not chain or (mut == 0 and o2 >= 0)
    pre: 0 <= src < len(SOURCES) and 0 <= mut < len(MUTATORS)
    pre: mut == 0 or o3 == -1
    pre: 0 <= o1 < 4 and -1 <= o2 < 4 and -1 <= o3 < 4 and (o3 == -1 or o2 >= 0)
    pre: 0 <= a1 <= ALLHIDE and 0 <= a2 <= ALLHIDE and 0 <= a3 <= ALLHIDE
    pre: shard_of(o1 * 5 + o2 + 1 + a1 + src * 3)
    pre: thorough() or o3 == -1 or (o1 == o2 and o2 == o3 and o1 != 3)
    pre: vis_mask_in_tier(o1, a1, o2) and vis_mask_in_tier(o2, a2, o2) and vis_mask_in_tier(o3, a3, o2)
    post: _
    """
    SRC = concrete_int(src, 0, len(SOURCES) - 1)
    ops = []
    for o, a in ((o1, a1), (o2, a2), (o3, a3)):
        O = concrete_int(o, -1, 3)
        if O < 0:
            if a != 0:
                return result(True, False)
            continue
        name = OPS[O]
        if name in ("clone", "camel"):
            if a != 0:
                return result(True, False)
            ops.append((name, 0))
        elif name == "extend":
            if a >= len(EXTENSIONS):
                return result(True, False)
            ops.append((name, concrete_int(a, 0, len(EXTENSIONS) - 1)))
        else:
            ops.append((name, concrete_int(a, 0, ALLHIDE)))
    MUT = concrete_int(mut, 0, len(MUTATORS) - 1)
    CH = True if chain else False
    with untraced():
        source = SOURCES[SRC]()
        if SRC == 1 and any(op == "extend" for op, _ in ops):
            pass
        before_attrs, before_sdl = attrs(source), source.to_string()
        before_registry, before_probe = registry(source), probe(source, SRC)
        problem = ""
        # every operation is applied to the SAME source (quick: sequences of length 3 only when all three operations are of the same kind) (clone-based operations must leave it reusable)
        current = source
        for n_op, (op, arg) in enumerate(ops):
            try:
                res = apply_op(current if CH else source, op, arg)
            except Exception as e:  # noqa
                if CH and n_op > 0 and op == "extend" and isinstance(e, Exception) and type(e).__name__ in ("ExtensionError", "SDLError"):
                    return result(True, False)      # the extension document refers to something an earlier step of the chain removed / renamed
                problem = "%s(%s) raised %r" % (op, arg, e)
                break
            if CH and n_op > 0:
                # chained: each operation is applied to the RESULT of the previous one; the result must be a usable, closed, valid schema
                problem = closed(res)
                if not problem:
                    try:
                        res.validate()
                        res.to_string()
                        introspected_names(res)
                    except Exception as e:  # noqa
                        problem = "result of the chain is not usable: %r" % (e,)
                if not problem and (attrs(source) != before_attrs or source.to_string() != before_sdl):
                    problem = "source modified"
                current = res
                if problem:
                    problem = "%s(%s) after %r: %s" % (op, arg, ops[:n_op], problem)
                    break
                continue
            current = res
            problem = check_step(source, before_attrs, before_sdl, res, op, arg)
            if not problem and op in ("clone", "extend") and probe(res, SRC) != before_probe:
                problem = "the derived schema answers the probe query differently from its source"
            if not problem and MUT:
                # the derived schema is then used: resolvers registered on it must not show in the source
                mutate(res, MUT)
                if attrs(source) != before_attrs:
                    problem = "registering on the derived schema modified the source's elements"
                elif registry(source) != before_registry:
                    problem = "registering on the derived schema modified the source's resolver registry"
                elif source.to_string() != before_sdl:
                    problem = "registering on the derived schema changed how the source prints"
            if not problem and probe(source, SRC) != before_probe:
                problem = "the source answers a query differently afterwards"
            if problem:
                problem = "%s(%s): %s" % (op, arg, problem)
                break
    return result(problem == "", len(ops) >= 2)


# ---------------------------------------------------------------- hide_sets: every set of hidden named types
class HideTypes(VisibilitySchemaTransform):
    def __init__(self, hidden):
        self.hidden = hidden

    def is_type_visible(self, name):
        return name not in self.hidden


HIDE_QUERY = "{ __schema { types { name possibleTypes { name } interfaces { name } fields { name type { name ofType { name ofType { name ofType { name } } } } } } } }"
_KEEP = ("Int", "Float", "String", "Boolean", "ID", "Query")


def hideable(schema):
    return sorted(n for n in schema.types if not n.startswith("__") and n not in _KEEP)


def hidden_leaks(schema, hidden):
    """'' or how a hidden type is still reachable from the derived schema (registry, derived indexes, introspection)"""
    for h in hidden:
        if h in schema.types:
            return "hidden type %s is still registered" % h
    res = graphql_blocking(schema, HIDE_QUERY)
    if res.errors:
        return "introspection fails: %r" % (res.errors,)
    types = res.data["__schema"]["types"]
    listed = {t["name"] for t in types}
    for t in types:
        for k in ("possibleTypes", "interfaces"):
            for x in t[k] or []:
                if x["name"] not in listed or x["name"] in hidden:
                    return "%s.%s names %s, which is hidden / not a listed type" % (t["name"], k, x["name"])
        for f in t["fields"] or []:
            ty = f["type"]
            while ty is not None:
                if ty["name"] is not None and (ty["name"] not in listed or ty["name"] in hidden):
                    return "%s.%s is of type %s, which is hidden / not a listed type" % (t["name"], f["name"], ty["name"])
                ty = ty.get("ofType")
    for name in hidden:
        r = graphql_blocking(schema, '{ __type(name: "%s") { name } }' % name)
        if r.errors or r.data["__type"] is not None:
            return "__type(name: %s) still answers" % name
    return ""


def one_bit(a) -> bool:
    return a == 0 or a == 1 or a == 2 or a == 4 or a == 8 or a == 16 or a == 32 or a == 64 or a == 128 or a == 256 or a == 512 or a == 1024


def _hide_sets(src: int, mask: int, again: int) -> bool:
    """
    pre: 0 <= src < 2 and 0 <= mask < 2048 and 0 <= again <= 3
    pre: thorough() or again == 0 or one_bit(mask)
    pre: shard_of(mask)
    post: _
    """
    SRC, MASK, AGAIN = concrete_int(src, 0, 1), concrete_int(mask, 0, 2047), concrete_int(again, 0, 3)
    with untraced():
        source = SOURCES[SRC]()
        names = hideable(source)
        if MASK >= (1 << len(names)):
            return result(True, False)
        hidden = [n for i, n in enumerate(names) if MASK >> i & 1]
        before_attrs, before_sdl = attrs(source), source.to_string()
        problem = ""
        try:
            res = transform_schema(source, HideTypes(hidden))
        except SchemaValidationError:
            return result(True, False)       # e.g. a union left without members: refusing is an answer
        if AGAIN == 1:
            # the same transform applied to the same source a second time gives the same schema
            second = transform_schema(source, HideTypes(hidden))
            if attrs(second) != attrs(res) or second.to_string() != res.to_string():
                problem = "the second application of the same transform to the same source gives another schema"
            res = second
        elif AGAIN == 2:
            res = res.clone()
        elif AGAIN == 3:
            res = transform_schema(res, HideTypes([]))      # a pass that hides nothing
        problem = problem or closed(res) or hidden_leaks(res, hidden)
        if not problem:
            try:
                res.validate()
                res.to_string()
            except Exception as e:  # noqa
                problem = "derived schema unusable: %r" % (e,)
        if not problem and (closed(source) or attrs(source) != before_attrs or source.to_string() != before_sdl):
            problem = "source modified"
    return result(problem == "", MASK > 0)


def vis_mask_in_tier(o, a, o2) -> bool:
    if o != 3:
        return True
    if thorough() and o2 == -1:
        return True        # a single visibility transform: all 256 predicates
    # quick: masks with at most one bit set, plus all-hidden
    return a == ALLHIDE or a == 255 or a == 0 or a == 1 or a == 2 or a == 4 or a == 8 or a == 16 or a == 32 or a == 64 or a == 128 or a == 256 or a == 512


CONDITIONS = [
    Cond(
        name="hide_sets", fn=_hide_sets, quick=150, thorough=600, per_path=60, shards_quick=16, shards_thorough=16,
        bound="2 source schemas (code-built, SDL-built) x EVERY set of hidden named types (2^9 / 2^11 predicates: objects reachable only through an interface, a union or types=, interfaces, unions, enums, "
              "input objects, scalars, root types) x what happens next (nothing, the same transform again on the same source, clone of the result, a further pass hiding nothing; quick: follow-ups only for sets of <= 1 type): the derived schema is closed, "
              "its derived indexes (implementations, possible types) agree with its registry, no hidden type is registered or reachable through introspection (types, possibleTypes, interfaces, field types, __type), "
              "it validates and prints, the source is untouched; a refusal with SchemaValidationError (a union left without members) is accepted",
        symbolic={"src": "choice", "mask": "choice: the set of hidden types", "again": "choice: follow-up"}, assumptions=["oracle: closed() + derived_indexes() + hidden_leaks()"],
        witness={"src": 0, "mask": 64, "again": 0},
    ),
    Cond(
        name="op_sequences", fn=_op_sequences, quick=200, thorough=1200, per_path=90, shards_quick=20, shards_thorough=20,
        bound="3 source schemas (code-built with resolvers / default resolvers / type resolvers / subscription resolver / python names / defaults incl. explicit null defaults / descriptions / deprecations; SDL-built with registered resolvers, "
              "once with an object default and once with a `= null` default) "
              "x every sequence of 1..3 operations from {clone, camel-case, extend with one of 6 documents, visibility with a 10-bit predicate incl. the subscription and mutation root types (all 1024 for a single transform in the thorough tier; <= 1 bit or all bits inside sequences)} applied to the SAME source (quick: sequences of length 3 only when all three operations are of the same kind) "
              "x 4 uses of each derived schema through the registration API (nothing / resolvers / default resolvers / subscription resolvers registered on it; for sequences of length <= 2): the source's elements, "
              "resolver registries, printed SDL and the answer to a probe query stay what they were (a clone / extension answers the probe like its source: schema-wide default resolver included); "
              "the same sequences CHAINED (each operation applied to the previous result): every intermediate result is closed, valid, printable and introspectable",
        symbolic={"src": "choice", "o1..o3": "choice: operations", "a1..a3": "choice: extension document / visibility bits", "mut": "choice: what is registered on each derived schema afterwards", "chain": "choice: operations applied to the same source or each to the previous result"},
        assumptions=["oracle: closed() + attribute snapshot attrs() + introspection query; 'preserved' is checked for every element the operation does not target"],
        witness={"src": 1, "o1": 0, "a1": 0, "o2": 1, "a2": 0, "o3": -1, "a3": 0, "mut": 1, "chain": False},
    ),
]
