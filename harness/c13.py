"""C13 - schema validation accepts valid schemas and rejects each rule violation."""
import itertools

from vf import known  # noqa: F401
from vf.spec import Cond, result, untraced, shard_of, thorough, concrete_int, pick  # noqa: F401

from py_gql.exc import SchemaError, SchemaValidationError
from py_gql.schema import (
    Argument, Directive, EnumType, EnumValue, Field, ID, InputField, InputObjectType, Int, InterfaceType, ListType, NonNullType,
    ObjectType, Schema, String, UnionType,
)
from py_gql.schema import validation as V


# ------------------------------------------------------------------ names (Engine B)
def spec_valid_name(name: str) -> bool:
    """spec 2.1.9 Name :: /[_A-Za-z][_0-9A-Za-z]*/ and 'must not begin with __' (3.3 reserved names)"""
    if len(name) == 0:
        return False
    c = name[0]
    if not (c == "_" or "a" <= c <= "z" or "A" <= c <= "Z"):
        return False
    for c in name[1:]:
        if not (c == "_" or "a" <= c <= "z" or "A" <= c <= "Z" or "0" <= c <= "9"):
            return False
    return not name.startswith("__")


def _name_regex(name: str) -> bool:
    """replay body for the z3 regex condition (plain CPython)"""
    return result(V._is_valid_name(name) == spec_valid_name(name), True)


def _solve_name_regex(tier):
    import z3
    from vf.smt import regex2z3 as RZ
    pat = V.VALID_NAME_RE
    impl = RZ.lang_of_match(pat)
    start = RZ.union([RZ.lit("_"), RZ.rng("a", "z"), RZ.rng("A", "Z")])
    cont = RZ.union([RZ.lit("_"), RZ.rng("a", "z"), RZ.rng("A", "Z"), RZ.rng("0", "9")])
    spec = z3.Intersect(z3.Concat(start, z3.Star(cont)), z3.Complement(z3.Concat(RZ.lit("__"), RZ.Full())))
    bad = RZ.validate_translation(pat, impl)
    if bad:
        return {"verdict": "error", "detail": "regex translator disagrees with re.match: %r" % (bad[:3],)}
    r = RZ.inclusion(impl, spec)
    out = {"verdict": r["verdict"], "queries": r["queries"], "solver_s": r["solver_s"], "smt_sizes": r["smt_sizes"],
           "second_opinion": r["second_opinion"], "detail": "pattern %r, both inclusions, strings of every length" % pat.pattern}
    if r["verdict"] == "refuted":
        out["counterexample"] = {"name": r["witness"]}
        out["detail"] += "; differs in %s" % r["direction"]
    if r["verdict"] == "confirmed" and any(x in ("sat", "error") for x in r["second_opinion"]):
        if "sat" in r["second_opinion"]:
            out["verdict"] = "unknown"
            out["detail"] += "; z3 4.8.12 disagrees (sat) - inconclusive"
    return out


# ------------------------------------------------------------------ covariance
WRAPS = [w for n in range(4) for w in ("".join(p) for p in itertools.product("![", repeat=n)) if "!!" not in w]
BASES = ("Obj", "Other", "Iface", "Uni", "Int")


def _world():
    iface = InterfaceType("Iface", [Field("x", Int)])
    obj = ObjectType("Obj", [Field("x", Int)], interfaces=[iface])
    other = ObjectType("Other", [Field("y", Int)])
    uni = UnionType("Uni", [obj])
    return {"Obj": obj, "Other": other, "Iface": iface, "Uni": uni, "Int": Int}


def build_type(world, wraps, base):
    t = world[base]
    for w in reversed(wraps):
        t = NonNullType(t) if w == "!" else ListType(t)
    return t


def spec_valid_impl(fw, fb, iw, ib):
    """IsValidImplementationFieldType(fieldType, implementedFieldType), spec 3.6 Objects / type validation 2.4"""
    if fw[:1] == "!":
        return spec_valid_impl(fw[1:], fb, iw[1:] if iw[:1] == "!" else iw, ib)
    if fw[:1] == "[" and iw[:1] == "[":
        return spec_valid_impl(fw[1:], fb, iw[1:], ib)
    if fw == "" and iw == "":
        if fb == ib:
            return True
        if fb == "Obj" and ib in ("Uni", "Iface"):
            return True
        return False
    return False


def _covariance(fw: int, fb: int, iw: int, ib: int) -> bool:
    """
    pre: 0 <= fw < len(WRAPS) and 0 <= iw < len(WRAPS)
    pre: 0 <= fb < len(BASES) and 0 <= ib < len(BASES)
    pre: shard_of(fw)
    post: _
    """
    fws, iws = pick(fw, WRAPS), pick(iw, WRAPS)
    fbs, ibs = pick(fb, BASES), pick(ib, BASES)
    with untraced():
        w = _world()
        ftype, itype = build_type(w, fws, fbs), build_type(w, iws, ibs)
        iface2 = InterfaceType("Node", [Field("f", itype)])
        impl = ObjectType("Impl", [Field("f", ftype)], interfaces=[iface2])
        query = ObjectType("Query", [Field("impl", impl), Field("other", w["Other"]), Field("obj", w["Obj"]), Field("u", w["Uni"])])
        schema = Schema(query)
        exp = spec_valid_impl(fws, fbs, iws, ibs)
        got_sub = schema.is_subtype(ftype, itype)
        try:
            schema.validate()
            got_valid = True
        except SchemaValidationError:
            got_valid = False
        ok = got_sub == exp and got_valid == exp
    return result(ok, exp)


ARG_BASES = ("Int", "String")


def _arg_invariance(fw: int, fb: int, iw: int, ib: int, extra: int) -> bool:
    """
    pre: 0 <= fw < len(WRAPS) and 0 <= iw < len(WRAPS) and 0 <= fb < 2 and 0 <= ib < 2 and 0 <= extra <= 3
    pre: shard_of(fw)
    post: _
    """
    fws, iws = pick(fw, WRAPS), pick(iw, WRAPS)
    fbs, ibs = pick(fb, ARG_BASES), pick(ib, ARG_BASES)
    EX = concrete_int(extra, 0, 3)
    with untraced():
        from py_gql.schema import Argument, String
        w = {"Int": Int, "String": String}
        atype_obj, atype_iface = build_type(w, fws, fbs), build_type(w, iws, ibs)
        iface = InterfaceType("Node", [Field("f", Int, args=[Argument("a", atype_iface)])])
        # the implementing field may declare ADDITIONAL arguments only when they are not required (spec 3.6 type validation 2.5)
        more = {0: [], 1: [Argument("more", Int)], 2: [Argument("more", NonNullType(Int))], 3: [Argument("more", NonNullType(Int), default_value=1)]}[EX]
        impl = ObjectType("Impl", [Field("f", Int, args=[Argument("a", atype_obj)] + more)], interfaces=[iface])
        schema = Schema(ObjectType("Query", [Field("impl", impl), Field("node", iface)]))
        # spec: "that argument must accept the same type (invariant)"
        exp = (fws == iws and fbs == ibs) and EX not in (2, 3)      # June 2018: an additional argument "must not be of a non-nullable type"
        try:
            schema.validate()
            got = True
        except SchemaValidationError:
            got = False
    return result(got == exp, exp)


# ------------------------------------------------------------------ labelled violations
BAD_NAMES = ("__x", "1a", "a-b", "", "a\n", "é")
DEPTHS = ("", "!", "[", "[!", "![!")


def wrap(t, w):
    for c in reversed(w):
        t = NonNullType(t) if c == "!" else ListType(t)
    return t


VIOLATIONS = (
    "none", "empty_object", "empty_interface", "empty_union", "empty_enum", "empty_input",
    "dup_field", "dup_arg", "dup_union_member", "dup_input_field", "dup_interface",
    "input_in_output", "output_in_arg", "output_in_input_field", "output_in_directive_arg",
    "missing_iface_field", "iface_field_type", "iface_arg_missing", "iface_arg_type", "extra_required_arg",
    "union_member_not_object", "query_not_object", "mutation_not_object",
    "name_type", "name_field", "name_arg", "name_enum_value", "name_directive", "name_directive_arg", "name_input_field",
    # (appended) violations of the INTERFACE's own definition - they combine with the implementation violations of the object that implements it
    "iface_dup_field", "iface_own_field_name", "iface_own_input_in_output", "iface_own_arg_output",
    "implements_object", "implements_union", "implements_scalar",
)


# two violations are only combined when they sit on different elements (otherwise one removes the element
# the other needs, e.g. an empty enum has no value to misname)
GROUPS = {
    "empty_object": "B",
    "empty_interface": "Node", "missing_iface_field": "Node", "iface_field_type": "Node", "iface_arg_missing": "Node",
    "iface_arg_type": "Node", "extra_required_arg": "Node", "dup_interface": "Node", "query_not_object": "Node",
    "empty_union": "AB", "dup_union_member": "AB", "union_member_not_object": "AB", "mutation_not_object": "AB",
    "empty_enum": "Color", "name_enum_value": "Color",
    "empty_input": "In", "dup_input_field": "In", "name_input_field": "In", "output_in_input_field": "In",
    "dup_field": "A.fields", "input_in_output": "A.fields", "name_field": "A.fields", "name_type": "A",
    "dup_arg": "A.c.args", "name_arg": "A.c.args", "output_in_arg": "A.c.args",
    "name_directive": "directive", "name_directive_arg": "directive", "output_in_directive_arg": "directive",
    "implements_object": "A.ifaces", "implements_union": "A.ifaces", "implements_scalar": "A.ifaces",
    "iface_dup_field": "Node.own", "iface_own_field_name": "Node.own", "iface_own_input_in_output": "Node.own", "iface_own_arg_output": "Node.own",
}


# pairs inside one group that do NOT cancel each other: several violations on the same implemented field / interface
COMBINABLE = {frozenset(p) for p in (
    ("iface_field_type", "iface_arg_type"), ("iface_field_type", "iface_arg_missing"), ("iface_field_type", "extra_required_arg"), ("iface_arg_type", "extra_required_arg"),
    ("missing_iface_field", "iface_arg_type"), ("missing_iface_field", "iface_field_type"), ("missing_iface_field", "iface_arg_missing"), ("missing_iface_field", "extra_required_arg"),
    ("dup_interface", "iface_field_type"), ("dup_interface", "missing_iface_field"),
)}


def build_schema_with(violations, depth, badname, order):
    """a small valid schema with the labelled violations injected; returns Schema (may raise SchemaError at build)"""
    v = set(violations)
    d = depth
    inp_fields = [InputField("a", Int), InputField("name_input_field_x" if "name_input_field" not in v else badname, String)]
    if "dup_input_field" in v:
        inp_fields.append(InputField("a", String))
    if "empty_input" in v:
        inp_fields = []
    inp = InputObjectType("In", inp_fields)
    enum = EnumType("Color", [] if "empty_enum" in v else [EnumValue("RED"), EnumValue(badname if "name_enum_value" in v else "BLUE")])
    iface_args = [Argument("p", Int)]
    iface_fields = [Field("id", NonNullType(ID), args=iface_args), Field("n", Int)]
    if "iface_dup_field" in v:
        iface_fields.append(Field("n", Int))
    if "iface_own_field_name" in v:
        iface_fields.append(Field(badname, Int))
    if "iface_own_input_in_output" in v:
        iface_fields.append(Field("own_bad", wrap(inp, d)))
    if "iface_own_arg_output" in v:
        iface_fields.append(Field("own_arg", Int, args=[Argument("o", wrap(ObjectType("ArgObj", [Field("z", Int)]), d))]))
    iface = InterfaceType("Node", [] if "empty_interface" in v else iface_fields)
    obj_args = [Argument("p", String if "iface_arg_type" in v else Int)]
    if "iface_arg_missing" in v:
        obj_args = []
    if "extra_required_arg" in v:
        obj_args.append(Argument("q", NonNullType(Int)))
    a_fields = [Field("id", ID if "iface_field_type" in v else NonNullType(ID), args=obj_args)]
    if "missing_iface_field" not in v:
        a_fields.append(Field("n", Int))
    a_fields.append(Field(badname if "name_field" in v else "c", enum, args=[
        Argument(badname if "name_arg" in v else "i", wrap(inp, d)),
        Argument("e", wrap(iface if "output_in_arg" in v else enum, d)),
    ] + ([Argument("e", Int)] if "dup_arg" in v else [])))
    if "iface_own_field_name" in v:
        a_fields.append(Field(badname, Int))
    if "iface_own_input_in_output" in v:
        a_fields.append(Field("own_bad", wrap(inp, d)))
    if "iface_own_arg_output" in v:
        a_fields.append(Field("own_arg", Int, args=[Argument("o", Int)]))
    if "input_in_output" in v:
        a_fields.append(Field("bad", wrap(inp, d)))
    if "dup_field" in v:
        a_fields.append(Field("c", String))
    if "output_in_input_field" in v:
        inp_fields.append(InputField("o", wrap(enum if False else iface, d)))
        inp = InputObjectType("In", inp_fields)
    ifaces = [iface, iface] if "dup_interface" in v else [iface]
    other_obj = ObjectType("NotAnInterface", [Field("id", NonNullType(ID))])
    if "implements_object" in v:
        ifaces.append(other_obj)
    if "implements_union" in v:
        ifaces.append(UnionType("NotAnInterfaceEither", [other_obj]))
    if "implements_scalar" in v:
        ifaces.append(String)
    a = ObjectType(badname if "name_type" in v else "A", a_fields, interfaces=ifaces)
    b = ObjectType("B", [] if "empty_object" in v else [Field("b", Int)])
    members = [a, b]
    if "dup_union_member" in v:
        members = [a, b, a]
    if "union_member_not_object" in v:
        members = [a, iface]
    if "empty_union" in v:
        members = []
    uni = UnionType("AB", members)
    directive = Directive(badname if "name_directive" in v else "custom", ["FIELD"], args=[
        Argument(badname if "name_directive_arg" in v else "x", wrap(iface if "output_in_directive_arg" in v else Int, d))])
    qfields = [Field("a", a), Field("u", uni), Field("b", b), Field("node", iface)]
    if tuple(order) == ORDERS[1]:
        qfields.reverse()               # the interface is reached (and validated) BEFORE the object that implements it
    query = ObjectType("Query", qfields)
    mutation = ObjectType("Mutation", [Field("m", Int)])
    extra = [a, b, uni, inp, enum, iface]
    extra = [extra[i] for i in order]
    return Schema(
        iface if "query_not_object" in v else query,
        mutation_type=(uni if "mutation_not_object" in v else mutation),
        types=extra, directives=[directive],
    )


ORDERS = ((0, 1, 2, 3, 4, 5), (5, 4, 3, 2, 1, 0), (2, 0, 4, 1, 5, 3))


def validate_verdict(schema):
    try:
        schema.validate()
        return 0
    except SchemaValidationError as e:
        return len(e.errors)


def validate_messages(schema):
    try:
        schema.validate()
        return ()
    except SchemaValidationError as e:
        return tuple(sorted(set(str(x) for x in e.errors)))


def _rules(v1: int, v2: int, depth: int, name: int, order: int) -> bool:
    """
    pre: 0 <= v1 < len(VIOLATIONS) and 0 <= v2 < len(VIOLATIONS)
    pre: v2 == 0 or v1 < v2
    pre: 0 <= depth < len(DEPTHS) and 0 <= name < len(BAD_NAMES) and 0 <= order < len(ORDERS)
    pre: shard_of(v1)
    post: _
    """
    a, b = pick(v1, VIOLATIONS), pick(v2, VIOLATIONS)
    uses_depth = any(x in ("input_in_output", "output_in_arg", "output_in_input_field", "output_in_directive_arg", "iface_own_input_in_output", "iface_own_arg_output") for x in (a, b))
    uses_name = any(x.startswith("name_") or x == "iface_own_field_name" for x in (a, b))
    if a != "none" and b != "none" and GROUPS[a] == GROUPS[b] and frozenset((a, b)) not in COMBINABLE:
        return result(True, False)
    if "empty_interface" in (a, b) and "Node.own" in (GROUPS.get(a), GROUPS.get(b)):
        return result(True, False)          # an interface without fields has no field of its own to be wrong
    if not uses_depth and depth != 0:
        return result(True, False)
    if not uses_name and name != 0:
        return result(True, False)
    ds, ns, od = pick(depth, DEPTHS), pick(name, BAD_NAMES), pick(order, ORDERS)
    if known.c13_unchecked_name_site(a, ns) or known.c13_unchecked_name_site(b, ns):
        return result(True, False)
    with untraced():
        injected = [x for x in (a, b) if x != "none"]
        try:
            schema = build_schema_with(injected, ds, ns, od)
        except SchemaError:
            # rejected at construction with the library's own error: fine for a violation, never for a valid schema
            return result(len(injected) > 0, True)
        n = validate_verdict(schema)
        base_schema = build_schema_with(injected, ds, ns, ORDERS[0])
        base = validate_verdict(base_schema)
        if not injected:
            ok = n == 0
        else:
            ok = n >= len(injected) and (n == 0) == (base == 0)
            # the violations reported (as a set of messages) do not depend on the order in which the types were supplied / are reached
            ok = ok and validate_messages(schema) == validate_messages(base_schema)
    return result(ok, True)


# ------------------------------------------------------------------ resolver signatures
def _r0(): pass                                   # noqa: E704
def _r2(root, ctx): pass                          # noqa: E704
def _r3(root, ctx, info): pass                    # noqa: E704
def _r3_kw(root, ctx, info, **kw): pass           # noqa: E704
def _r3_args(*args): pass                         # noqa: E704
def _r3_x(root, ctx, info, x): pass               # noqa: E704
def _r3_xd(root, ctx, info, x=None): pass         # noqa: E704
def _r3_extra(root, ctx, info, x, extra): pass    # noqa: E704
def _r3_extrad(root, ctx, info, x=None, extra=1): pass  # noqa: E704
def _r3_py(root, ctx, info, px=None): pass        # noqa: E704
def _r3_posonly(root, ctx, info, x, /): pass      # noqa: E704
def _r4(a, b, c, d): pass                         # noqa: E704


RESOLVERS = (_r0, _r2, _r3, _r3_kw, _r3_args, _r3_x, _r3_xd, _r3_extra, _r3_extrad, _r3_py, _r3_posonly, _r4)
ARGKINDS = ("none", "required", "optional", "defaulted", "python_name")


def spec_resolver_ok(fn, argkind):
    """the documented rule (docs/usage/resolvers + validate docstring): 3 positional parameters (or *args), every argument
    has a same-named (python_name) parameter or **kwargs, not positional-only, optional args without default need a
    parameter default, no further required parameters"""
    import inspect
    sig = inspect.signature(fn)
    params = list(sig.parameters.values())
    has_var = any(p.kind is p.VAR_POSITIONAL for p in params)
    has_kw = any(p.kind is p.VAR_KEYWORD for p in params)
    argname = {"none": None, "required": "x", "optional": "x", "defaulted": "x", "python_name": "px"}[argkind]
    ok = True
    if argname is not None:
        p = sig.parameters.get(argname)
        if p is None:
            ok = ok and has_kw
        else:
            if p.kind is p.POSITIONAL_ONLY:
                ok = False
            elif p.default is p.empty and argkind in ("optional", "python_name"):
                ok = False
    rest = [p for p in params if p.name != argname and p.kind not in (p.VAR_POSITIONAL, p.VAR_KEYWORD)]
    pos = [p for p in rest if p.kind in (p.POSITIONAL_ONLY, p.POSITIONAL_OR_KEYWORD)]
    if not has_var and len(pos) < 3:
        ok = False
    for p in rest[3:]:
        if p.default is p.empty:
            ok = False
    return ok


def _resolver_signature(r: int, k: int, level: int) -> bool:
    """
    pre: 0 <= r < len(RESOLVERS) and 0 <= k < len(ARGKINDS) and 0 <= level <= 1
    post: _
    """
    fn, kind = pick(r, RESOLVERS), pick(k, ARGKINDS)
    lv = concrete_int(level, 0, 1)
    with untraced():
        args = {
            "none": [], "required": [Argument("x", NonNullType(Int))], "optional": [Argument("x", Int)],
            "defaulted": [Argument("x", Int, default_value=1)], "python_name": [Argument("x", Int, python_name="px")],
        }[kind]
        f = Field("f", Int, args=args, resolver=fn if lv == 0 else None)
        q = ObjectType("Query", [f], default_resolver=fn if lv == 1 else None)
        schema = Schema(q)
        if lv == 2:
            schema.default_resolver = fn
        exp = spec_resolver_ok(fn, kind)
        got = validate_verdict(schema) == 0
        # and validation can be switched off
        off = True
        try:
            V.validate_schema(schema, enable_resolver_validation=False)
        except SchemaValidationError:
            off = False
    return result(got == exp and off, True)


def _args_for(kind):
    return {
        "none": [], "required": [Argument("x", NonNullType(Int))], "optional": [Argument("x", Int)],
        "defaulted": [Argument("x", Int, default_value=1)], "python_name": [Argument("x", Int, python_name="px")],
    }[kind]


def _resolver_shared(r: int, k1: int, k2: int, order: bool, late: bool) -> bool:
    """
    pre: 0 <= r < len(RESOLVERS) and 0 <= k1 < len(ARGKINDS) and 0 <= k2 < len(ARGKINDS)
    pre: shard_of(r)
    post: _
    """
    fn, K1, K2 = pick(r, RESOLVERS), pick(k1, ARGKINDS), pick(k2, ARGKINDS)
    ORD, LATE = (True if order else False), (True if late else False)
    with untraced():
        # ONE callable serves two fields whose same-named arguments differ in required / default / python name
        fa = Field("f", Int, args=_args_for(K1), resolver=None if LATE else fn)
        fb = Field("g", Int, args=_args_for(K2), resolver=None if LATE else fn)
        ta, tb = ObjectType("TA", [fa]), ObjectType("TB", [fb])
        q = ObjectType("Query", [Field("a", ta), Field("b", tb)] if ORD else [Field("b", tb), Field("a", ta)])
        schema = Schema(q, types=[ta, tb] if ORD else [tb, ta])
        if LATE:
            # validate first (valid: default resolvers), then register the shared callable and validate again
            schema.validate()
            schema.register_resolver("TA", "f", fn)
            schema.register_resolver("TB", "g", fn)
        exp = spec_resolver_ok(fn, K1) and spec_resolver_ok(fn, K2)
        got = validate_verdict(schema) == 0
    return result(got == exp, True)


# ------------------------------------------------------------------ cache invalidation across registrations
def _cache(o1: int, o2: int, o3: int) -> bool:
    """
    pre: 0 <= o1 < 5 and 0 <= o2 < 5 and 0 <= o3 < 5
    post: _
    """
    ops = [concrete_int(o, 0, 4) for o in (o1, o2, o3)]
    with untraced():
        q = ObjectType("Query", [Field("f", Int, args=[Argument("x", Int)])])
        schema = Schema(q)
        ok = True
        for op in ops:
            if op == 0:
                schema.register_resolver("Query", "f", _r3_xd, allow_override=True)
            elif op == 1:
                schema.register_resolver("Query", "f", _r2, allow_override=True)
            elif op == 2:
                schema.register_default_resolver("Query", _r3_kw, allow_override=True)
            elif op == 3:
                schema.register_resolver("Query", "f", _r3_x, allow_override=True)
            # op 4 = just validate
            try:
                schema.validate()
                got = True
            except SchemaValidationError:
                got = False
            fresh = True
            try:
                V.validate_schema(schema)
            except SchemaValidationError:
                fresh = False
            ok = ok and got == fresh
    return result(ok, True)


# ---- an object implementing TWO interfaces that declare a field of the same name: each interface is checked on its own
TI_TYPES = ("Int", "Int!", "String", "[Int]")
TI_ARGS = ((), (("x", "Int"),), (("x", "Int!"),))


def _ti_type(e):
    if e.endswith("!"):
        return NonNullType(_ti_type(e[:-1]))
    if e.startswith("["):
        return ListType(_ti_type(e[1:-1]))
    return {"Int": Int, "String": String}[e]


def _two_interfaces(ta: int, tb: int, to: int, aa: int, ab: int, ao: int, swap: bool) -> bool:
    """
    pre: 0 <= ta < 4 and 0 <= tb < 4 and 0 <= to < 4 and 0 <= aa < 3 and 0 <= ab < 3 and 0 <= ao < 3
    pre: shard_of(ta * 4 + tb)
    post: _
    """
    TA, TB, TO = pick(ta, TI_TYPES), pick(tb, TI_TYPES), pick(to, TI_TYPES)
    AA, AB, AO = pick(aa, TI_ARGS), pick(ab, TI_ARGS), pick(ao, TI_ARGS)
    SW = True if swap else False
    with untraced():
        def field(t, args):
            return Field("f", _ti_type(t), args=[Argument(n, _ti_type(at)) for n, at in args])

        def world(which):
            a = InterfaceType("A", [field(TA, AA)])
            b = InterfaceType("B", [field(TB, AB), Field("g", Int)])
            ifaces = {"a": [a], "b": [b], "ab": [a, b], "ba": [b, a]}[which]
            o = ObjectType("O", [field(TO, AO), Field("g", Int)], interfaces=ifaces)
            return Schema(ObjectType("Query", [Field("o", o)]), types=[a, b, o])
        alone = set(validate_messages(world("a"))) | set(validate_messages(world("b")))
        both = set(validate_messages(world("ba" if SW else "ab")))
        # every interface is checked on its own: what is reported for the pair is what is reported for each alone (no masking, whatever the order)
        ok = both == alone
    return result(ok, len(alone) > 0)


CONDITIONS = [
    Cond(
        name="two_interfaces", fn=_two_interfaces, quick=100, thorough=100, per_path=60, shards_quick=16, shards_thorough=16,
        bound="an object implementing TWO interfaces that both declare a field f: 4 types for each declaration and for the object's field (Int, Int!, String, [Int]) x 3 argument lists each (none, x: Int, x: Int!) "
              "x both orders of the interface list: the set of reported messages equals the union of what is reported when the object implements each interface alone",
        symbolic={"ta,tb,to,aa,ab,ao,swap": "choice"}, assumptions=["metamorphic oracle: validation of the single-interface schemas"], witness={"ta": 0, "tb": 1, "to": 0, "aa": 0, "ab": 0, "ao": 0, "swap": False},
    ),
    Cond(
        name="name_regex", fn=_name_regex, kind="z3", solve=_solve_name_regex, quick=120, thorough=300,
        bound="strings of EVERY length (no bound): language of the live VALID_NAME_RE under re.match == /[_A-Za-z][_0-9A-Za-z]*/ minus '__' prefix; limited to the regex op-codes the translator supports",
        symbolic={"name": "data: a z3 String"}, assumptions=["regex translator validated per run by 32 z3 models pushed through re.match"],
        witness={"name": "foo_Bar9"}, twin=False,
    ),
    Cond(
        name="covariance", fn=_covariance, quick=120, thorough=300, per_path=30, shards_quick=11, shards_thorough=11,
        bound="interface field type and object field type: every wrapper list of <= 3 wrappers (no '!!') over {Obj implements Iface & member of Uni, Other, Iface, Uni, Int}: 55 x 55 pairs",
        symbolic={"fw,fb": "choice: object field type", "iw,ib": "choice: interface field type"},
        assumptions=["oracle: IsValidImplementationFieldType transcribed from spec section 3.6"],
        witness={"fw": 1, "fb": 0, "iw": 0, "ib": 2},
    ),
    Cond(
        name="arg_invariance", fn=_arg_invariance, quick=120, thorough=300, per_path=30, shards_quick=11, shards_thorough=11,
        bound="argument of an interface field vs the same argument on the implementing field: every pair of wrapper lists of <= 3 wrappers over {Int, String} (22 x 22) x an additional argument on the implementing "
              "field (none / optional / required / required with default): valid iff the types are identical and no additional argument has a non-null type",
        symbolic={"fw,fb": "choice: implementing argument type", "iw,ib": "choice: interface argument type", "extra": "choice: additional argument"},
        assumptions=["oracle: spec section 3.6 object type validation 2.5 (arguments invariant; additional arguments must not be required)"],
        witness={"fw": 1, "fb": 0, "iw": 1, "ib": 0, "extra": 1},
    ),
    Cond(
        name="rules", fn=_rules, quick=150, thorough=600, per_path=30, shards_quick=15, shards_thorough=30,
        bound="one or two of %d labelled violations injected into a code-built schema; wrapper depth in %r for position violations; %d bad names for name sites; 3 type orders" % (len(VIOLATIONS) - 1, DEPTHS, len(BAD_NAMES)),
        symbolic={"v1,v2": "choice: injected violations", "depth": "choice", "name": "choice", "order": "choice: order of types=[...]"},
        assumptions=["a violation rejected at Schema() construction with SchemaError counts as rejected"],
        witness={"v1": 0, "v2": 0, "depth": 0, "name": 0, "order": 0},
    ),
    Cond(
        name="resolver_signature", fn=_resolver_signature, quick=60, thorough=120,
        bound="12 resolver shapes x 5 argument kinds x 2 attachment levels (field resolver / type default resolver); the schema-wide default resolver is out: it is validated against every field including introspection fields, so only generic signatures are valid there",
        symbolic={"r": "choice", "k": "choice", "level": "choice"}, witness={"r": 3, "k": 2, "level": 0},
    ),
    Cond(
        name="resolver_shared", fn=_resolver_shared, quick=100, thorough=200, per_path=30, shards_quick=12, shards_thorough=12,
        bound="one resolver callable (12 shapes) attached to two fields of two types whose same-named argument is of 5 x 5 kinds, both type orders, attached at construction or registered after a first validate(): valid iff valid for each field on its own",
        symbolic={"r": "choice: resolver shape", "k1,k2": "choice: argument kinds", "order": "choice: type order", "late": "choice: registered after a validate()"},
        witness={"r": 5, "k1": 1, "k2": 2, "order": True, "late": False},
    ),
    Cond(
        name="cache", fn=_cache, quick=60, thorough=120,
        bound="every sequence of 3 operations from {register good/bad/kw resolvers, validate}: validate() verdict == fresh validate_schema() verdict after each step",
        symbolic={"o1,o2,o3": "choice: operations"}, witness={"o1": 0, "o2": 1, "o3": 4},
    ),
]
