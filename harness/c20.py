"""C20 - schema diffing reports every difference with a severity matching client impact."""
import copy
import itertools

from vf import known  # noqa: F401
from vf.spec import Cond, result, untraced, shard_of, thorough, concrete_int, pick  # noqa: F401

from py_gql import build_schema
from py_gql.lang import parse
from py_gql.schema import Int, ListType, NonNullType, ObjectType, Field, String
from py_gql.schema.differ import SchemaChangeSeverity, diff_schema
import py_gql.schema.differ as D
from py_gql.validation import validate_ast

WRAPS = [w for n in range(5) for w in ("".join(p) for p in itertools.product("![", repeat=n)) if "!!" not in w]

_T1 = ObjectType("T1", [Field("a", Int)])
_T2 = ObjectType("T2", [Field("a", Int)])


def mk(w, base):
    t = base
    for c in reversed(w):
        t = NonNullType(t) if c == "!" else ListType(t)
    return t


def subtype(a, b, same):
    """every value of wrapper-type a (over base A) is a value of wrapper-type b (over base B); same = A is B"""
    if a[:1] == "!":
        return subtype(a[1:], b[1:] if b[:1] == "!" else b, same)
    if b[:1] == "!":
        return False                      # a admits null, b does not
    if a[:1] == "[" and b[:1] == "[":
        return subtype(a[1:], b[1:], same)
    if a == "" and b == "":
        return same
    return False


def _type_change(ow: int, nw: int, same: bool, position: bool) -> bool:
    """
    pre: 0 <= ow < len(WRAPS) and 0 <= nw < len(WRAPS)
    post: _
    """
    o, n = pick(ow, WRAPS), pick(nw, WRAPS)
    sm = True if same else False
    outp = True if position else False
    with untraced():
        old, new = mk(o, _T1), mk(n, _T1 if sm else _T2)
        if outp:
            got = D._is_safe_output_type_change(old, new)
            exp = subtype(n, o, sm) or known.c20_output_list_item_relaxed(o, n, sm)   # new at least as strict as old
        else:
            got = D._is_safe_input_type_change(old, new)
            exp = subtype(o, n, sm)            # new at least as permissive as old
        ok = (not got) or exp
    return result(ok, got)


# ---------------------------------------------------------------------------------- edits
def base_model():
    return {
        "order": ["Query", "A", "B", "Node", "U", "E", "In", "@d"],
        "Query": {"kind": "type", "ifaces": [], "fields": {
            "a": {"type": "A", "args": {}}, "u": {"type": "U", "args": {}}, "n": {"type": "Node", "args": {}},
            "b": {"type": "B", "args": {}},
            "w": {"type": "Int", "args": {"n": {"type": "Int!", "default": "1"}}},            # a non-null argument that clients may leave out thanks to its default
            "v": {"type": "Int", "args": {"ee": {"type": "E"}, "es": {"type": "[E!]"}, "ins": {"type": "[In!]"}}},
            "e": {"type": "E", "args": {"i": {"type": "In"}, "k": {"type": "Int", "default": "1"}, "r": {"type": "[Int!]!"}}}}},
        "A": {"kind": "type", "ifaces": ["Node"], "fields": {
            "id": {"type": "ID!", "args": {}}, "x": {"type": "[Int!]", "args": {}},
            "old": {"type": "Int", "args": {}, "deprecated": "gone"}, "self": {"type": "A", "args": {}},
            "rel": {"type": "Node", "args": {"k": {"type": "Int", "default": "1"}, "q": {"type": "[Int!]"}}}}},
        "B": {"kind": "type", "ifaces": [], "fields": {"b": {"type": "Int", "args": {}}}},
        "Node": {"kind": "interface", "fields": {"id": {"type": "ID!", "args": {}},
                                                  "rel": {"type": "Node", "args": {"k": {"type": "Int", "default": "1"}, "q": {"type": "[Int!]"}}}}},
        "U": {"kind": "union", "members": ["A", "B"]},
        "E": {"kind": "enum", "values": {"X": {}, "Y": {"deprecated": "r"}, "Z": {}}},
        "In": {"kind": "input", "fields": {"f": {"type": "Int!"}, "g": {"type": "String", "default": '"s"'}, "h": {"type": "[In!]"}, "d": {"type": "Int!", "default": "4"}}},
        "@d": {"kind": "directive", "locations": ["FIELD", "QUERY"], "args": {"x": {"type": "Int"}, "y": {"type": "Int!", "default": "2"}}},
    }


def _dep(x):
    return (' @deprecated(reason: "%s")' % x["deprecated"]) if x.get("deprecated") else ""


def _args(args):
    if not args:
        return ""
    return "(" + ", ".join("%s: %s%s" % (n, a["type"], (" = " + a["default"]) if a.get("default") is not None else "") for n, a in args.items()) + ")"


def _rev(d, on):
    items = list(d.items()) if isinstance(d, dict) else list(d)
    if on:
        items.reverse()
    return dict(items) if isinstance(d, dict) else items


def render(m, order=None, reverse_members=False):
    if reverse_members:
        m = copy.deepcopy(m)
        for name, t in m.items():
            if name == "order":
                continue
            for key in ("fields", "values", "args"):
                if key in t:
                    t[key] = _rev(t[key], True)
            for key in ("members", "locations", "ifaces"):
                if key in t:
                    t[key] = _rev(t[key], True)
            for f in t.get("fields", {}).values():
                if isinstance(f, dict) and "args" in f:
                    f["args"] = _rev(f["args"], True)
    out = []
    for name in (order or m["order"]):
        if name not in m:
            continue
        t = m[name]
        k = t["kind"]
        if k in ("type", "interface"):
            impl = (" implements " + " & ".join(t["ifaces"])) if t.get("ifaces") else ""
            fields = "\n".join("  %s%s: %s%s" % (fn, _args(f["args"]), f["type"], _dep(f)) for fn, f in t["fields"].items())
            out.append("%s %s%s {\n%s\n}" % (k, name, impl, fields))
        elif k == "union":
            out.append("union %s = %s" % (name, " | ".join(t["members"])))
        elif k == "enum":
            out.append("enum %s {\n%s\n}" % (name, "\n".join("  %s%s" % (v, _dep(x)) for v, x in t["values"].items())))
        elif k == "input":
            out.append("input %s {\n%s\n}" % (name, "\n".join(
                "  %s: %s%s" % (fn, f["type"], (" = " + f["default"]) if f.get("default") is not None else "") for fn, f in t["fields"].items())))
        elif k == "scalar":
            out.append("scalar %s" % name)
        elif k == "directive":
            out.append("directive %s%s on %s" % (name, _args(t["args"]), " | ".join(t["locations"])))
    return "\n\n".join(out)


# client corpus: operations valid against the base schema, touching every element
CORPUS = [
    "{ a { id } }", "{ a { x old self { id } } }", "{ u { ... on A { id } ... on B { b } } }", "{ u { __typename } }",
    "{ n { id ... on A { x } } }", "{ b { b } }", "{ e(r: [1]) }", "{ e(r: [1], k: 2) }", "{ e(r: [], i: {f: 1}) }",
    "{ e(r: [1], i: {f: 1, g: \"t\"}) }", "{ e(r: [1], i: {f: 1, h: [{f: 2}]}) }",
    "query ($i: In, $k: Int, $r: [Int!]!) { e(i: $i, k: $k, r: $r) }", "query ($f: Int!) { e(r: [1], i: {f: $f}) }",
    "query ($k: Int = 3) { e(k: $k, r: [1]) }", "{ a @d { id } }", "{ a @d(x: 1) { id } }", "query @d(y: 3) { b { b } }",
    "fragment F on Node { id } { n { ...F } a { ...F } }", "fragment G on U { ... on A { self { id } } } { u { ...G } }",
    "{ a { ... on Node { id } } }", "{ n { rel { id } } }", "{ n { rel(k: 2, q: [1]) { id } } }", "{ a { rel(k: 1) { id rel { id } } } }",
    "query ($k: Int, $q: [Int!]) { n { rel(k: $k, q: $q) { id } } }", "query ($e: E = X) { v(ee: $e) }", "query ($e: [E!] = [X, Z]) { v(es: $e) }", "{ v(ee: Z, es: [X]) }",
    "query ($in: [In!]) { v(ins: $in) }", "{ __type(name: \"A\") { name } }",
    "{ w }", "{ w(n: 2) }", "query ($n: Int! = 3) { w(n: $n) }",
]

# (label, mutate(model) -> expected change class name, list of names the message must mention)
def _edits():
    E = []

    def ed(label, cls, names):
        def deco(fn):
            E.append((label, fn, cls, names))
            return fn
        return deco

    @ed("add_type", "TypeAdded", ["C"])
    def _(m): m["C"] = {"kind": "type", "ifaces": [], "fields": {"c": {"type": "Int", "args": {}}}}; m["order"].append("C")
    @ed("remove_type", "TypeRemoved", ["B"])
    def _(m): del m["B"]; m["U"]["members"].remove("B"); del m["Query"]["fields"]["b"]
    @ed("change_kind", "TypeChangedKind", ["E"])
    def _(m): m["E"] = {"kind": "scalar"}
    @ed("add_field", "FieldAdded", ["B", "c"])
    def _(m): m["B"]["fields"]["c"] = {"type": "Int", "args": {}}
    @ed("add_iface_field", "FieldAdded", ["Node", "extra"])
    def _(m): m["Node"]["fields"]["extra"] = {"type": "Int", "args": {}}; m["A"]["fields"]["extra"] = {"type": "Int", "args": {}}
    @ed("remove_field", "FieldRemoved", ["A", "x"])
    def _(m): del m["A"]["fields"]["x"]
    @ed("add_opt_arg", "FieldArgumentAdded", ["Query", "e", "z"])
    def _(m): m["Query"]["fields"]["e"]["args"]["z"] = {"type": "Int"}
    @ed("add_req_arg", "FieldArgumentAdded", ["Query", "e", "z"])
    def _(m): m["Query"]["fields"]["e"]["args"]["z"] = {"type": "Int!"}
    @ed("remove_arg", "FieldArgumentRemoved", ["Query", "e", "k"])
    def _(m): del m["Query"]["fields"]["e"]["args"]["k"]
    @ed("arg_default_changed", "FieldArgumentDefaultValueChange", ["Query", "e", "k"])
    def _(m): m["Query"]["fields"]["e"]["args"]["k"]["default"] = "5"
    @ed("arg_default_removed", "FieldArgumentDefaultValueChange", ["Query", "e", "k"])
    def _(m): m["Query"]["fields"]["e"]["args"]["k"]["default"] = None
    @ed("arg_default_added", "FieldArgumentDefaultValueChange", ["Query", "e", "i"])
    def _(m): m["Query"]["fields"]["e"]["args"]["i"]["default"] = "{f: 1}"
    @ed("add_opt_input_field", "InputFieldAdded", ["In", "z"])
    def _(m): m["In"]["fields"]["z"] = {"type": "Int"}
    @ed("add_req_input_field", "InputFieldAdded", ["In", "z"])
    def _(m): m["In"]["fields"]["z"] = {"type": "Int!"}
    @ed("remove_input_field", "InputFieldRemoved", ["In", "g"])
    def _(m): del m["In"]["fields"]["g"]
    @ed("input_default_changed", "InputFieldDefaultValueChange", ["In", "g"])
    def _(m): m["In"]["fields"]["g"]["default"] = '"t"'
    @ed("add_enum_value", "EnumValueAdded", ["E", "W"])
    def _(m): m["E"]["values"]["W"] = {}
    @ed("remove_enum_value", "EnumValueRemoved", ["E", "Z"])
    def _(m): del m["E"]["values"]["Z"]
    @ed("deprecate_enum_value", "EnumValueDeprecated", ["E", "X"])
    def _(m): m["E"]["values"]["X"]["deprecated"] = "why"
    @ed("undeprecate_enum_value", "EnumValueDeprecationRemoved", ["E", "Y"])
    def _(m): m["E"]["values"]["Y"] = {}
    @ed("enum_reason", "EnumValueDeprecationReasonChanged", ["E", "Y"])
    def _(m): m["E"]["values"]["Y"]["deprecated"] = "other"
    @ed("add_union_member", "TypeAddedToUnion", ["U", "Query"])
    def _(m): m["U"]["members"].append("Query")
    @ed("remove_union_member", "TypeRemovedFromUnion", ["U", "B"])
    def _(m): m["U"]["members"].remove("B")
    @ed("add_interface", "TypeAddedToInterface", ["B", "Node"])
    def _(m): m["B"]["ifaces"].append("Node"); m["B"]["fields"]["id"] = {"type": "ID!", "args": {}}; m["B"]["fields"]["rel"] = copy.deepcopy(m["Node"]["fields"]["rel"])
    @ed("remove_interface", "TypeRemovedFromInterface", ["A", "Node"])
    def _(m): m["A"]["ifaces"].remove("Node")
    @ed("add_directive", "DirectiveAdded", ["z"])
    def _(m): m["@z"] = {"kind": "directive", "locations": ["FIELD"], "args": {}}; m["order"].append("@z")
    @ed("remove_directive", "DirectiveRemoved", ["d"])
    def _(m): del m["@d"]
    @ed("add_location", "DirectiveLocationAdded", ["d", "MUTATION"])
    def _(m): m["@d"]["locations"].append("MUTATION")
    @ed("remove_location", "DirectiveLocationRemoved", ["d", "QUERY"])
    def _(m): m["@d"]["locations"].remove("QUERY")
    @ed("add_dir_opt_arg", "DirectiveArgumentAdded", ["d", "z"])
    def _(m): m["@d"]["args"]["z"] = {"type": "Int"}
    @ed("add_dir_req_arg", "DirectiveArgumentAdded", ["d", "z"])
    def _(m): m["@d"]["args"]["z"] = {"type": "Int!"}
    @ed("remove_dir_arg", "DirectiveArgumentRemoved", ["d", "x"])
    def _(m): del m["@d"]["args"]["x"]
    @ed("dir_arg_default", "DirectiveArgumentDefaultValueChange", ["d", "y"])
    def _(m): m["@d"]["args"]["y"]["default"] = "3"
    @ed("deprecate_field", "FieldDeprecated", ["A", "x"])
    def _(m): m["A"]["fields"]["x"]["deprecated"] = "why"
    @ed("undeprecate_field", "FieldDeprecationRemoved", ["A", "old"])
    def _(m): m["A"]["fields"]["old"]["deprecated"] = None
    @ed("field_reason", "FieldDeprecationReasonChanged", ["A", "old"])
    def _(m): m["A"]["fields"]["old"]["deprecated"] = "other"
    # the same field-level edits on an INTERFACE field (the implementing type follows where the schema must stay valid)
    @ed("iface_remove_field", "FieldRemoved", ["Node", "rel"])
    def _(m): del m["Node"]["fields"]["rel"]
    @ed("iface_add_opt_arg", "FieldArgumentAdded", ["Node", "rel", "z"])
    def _(m): m["Node"]["fields"]["rel"]["args"]["z"] = {"type": "Int"}; m["A"]["fields"]["rel"]["args"]["z"] = {"type": "Int"}
    @ed("iface_add_req_arg", "FieldArgumentAdded", ["Node", "rel", "z"])
    def _(m): m["Node"]["fields"]["rel"]["args"]["z"] = {"type": "Int!"}; m["A"]["fields"]["rel"]["args"]["z"] = {"type": "Int!"}
    @ed("iface_remove_arg", "FieldArgumentRemoved", ["Node", "rel", "k"])
    def _(m): del m["Node"]["fields"]["rel"]["args"]["k"]; del m["A"]["fields"]["rel"]["args"]["k"]
    @ed("iface_arg_default_changed", "FieldArgumentDefaultValueChange", ["Node", "rel", "k"])
    def _(m): m["Node"]["fields"]["rel"]["args"]["k"]["default"] = "5"; m["A"]["fields"]["rel"]["args"]["k"]["default"] = "5"
    @ed("iface_deprecate_field", "FieldDeprecated", ["Node", "rel"])
    def _(m): m["Node"]["fields"]["rel"]["deprecated"] = "why"
    # ... and edits of the implementing OBJECT's copy of an interface field, the interface left as it is
    @ed("impl_deprecate_field", "FieldDeprecated", ["A", "rel"])
    def _(m): m["A"]["fields"]["rel"]["deprecated"] = "why"
    @ed("impl_add_opt_arg", "FieldArgumentAdded", ["A", "rel", "z"])
    def _(m): m["A"]["fields"]["rel"]["args"]["z"] = {"type": "Int"}
    @ed("impl_arg_default_changed", "FieldArgumentDefaultValueChange", ["A", "rel", "k"])
    def _(m): m["A"]["fields"]["rel"]["args"]["k"]["default"] = "5"
    @ed("impl_deprecate_id", "FieldDeprecated", ["A", "id"])
    def _(m): m["A"]["fields"]["id"]["deprecated"] = "why"
    # (appended) a NON-NULL input position loses / changes / (re)gains its default: without it the position is required
    @ed("nn_arg_default_removed", "FieldArgumentDefaultValueChange", ["Query", "w", "n"])
    def _(m): m["Query"]["fields"]["w"]["args"]["n"]["default"] = None
    @ed("nn_arg_default_changed", "FieldArgumentDefaultValueChange", ["Query", "w", "n"])
    def _(m): m["Query"]["fields"]["w"]["args"]["n"]["default"] = "9"
    @ed("nn_input_default_removed", "InputFieldDefaultValueChange", ["In", "d"])
    def _(m): m["In"]["fields"]["d"]["default"] = None
    @ed("nn_dir_arg_default_removed", "DirectiveArgumentDefaultValueChange", ["d", "y"])
    def _(m): m["@d"]["args"]["y"]["default"] = None
    @ed("nn_input_default_added", "InputFieldDefaultValueChange", ["In", "f"])
    def _(m): m["In"]["fields"]["f"]["default"] = "0"
    return E


EDITS = _edits()

# elements an edit touches (beyond the names in its expected message); two edits are combined only when no
# element of one is the other's element or its container
EXTRA_TOUCH = {
    "remove_type": [("U",), ("Query", "b")], "add_iface_field": [("A", "extra")], "add_interface": [("B", "id"), ("B", "rel"), ("Node", "rel")],
    "iface_add_opt_arg": [("A", "rel")], "iface_add_req_arg": [("A", "rel")], "iface_remove_arg": [("A", "rel")], "iface_arg_default_changed": [("A", "rel")],
    "iface_remove_field": [("A", "rel")], "iface_deprecate_field": [("A", "rel")],
    "impl_deprecate_field": [("Node", "rel")], "impl_add_opt_arg": [("Node", "rel")], "impl_arg_default_changed": [("Node", "rel")], "add_interface": [("B", "id"), ("B", "rel"), ("Node", "rel"), ("A", "rel")],
    "change_kind": [("Query", "e")], "add_union_member": [("U",)], "remove_union_member": [("U",)],
}


def touches(edit):
    label, fn, cls, names = edit
    t = [tuple(names)] + EXTRA_TOUCH.get(label, [])
    if cls.startswith("Directive"):
        t = [("@",) + x for x in t]
    return t


def compatible(e1, e2):
    for a in touches(e1):
        for b in touches(e2):
            n = min(len(a), len(b))
            if a[:n] == b[:n]:
                return False
    return True

# retyping edits: (site, old wrapper list is fixed by the base model) new type chosen from RETYPES
RETYPE_SITES = (
    ("field", "A", "x", "[Int!]", "FieldChangedType"),
    ("field", "A", "self", "A", "FieldChangedType"),
    ("arg", "Query", "e", "r", "[Int!]!", "FieldArgumentChangedType"),
    ("arg", "Query", "e", "k", "Int", "FieldArgumentChangedType"),
    ("input", "In", "f", "Int!", "InputFieldChangedType"),
    ("input", "In", "h", "[In!]", "InputFieldChangedType"),
    ("dirarg", "d", "x", "Int", "DirectiveArgumentChangedType"),
    ("field", "Node", "rel", "Node", "FieldChangedType"),                 # interface field (the implementing type is retyped alike)
    ("arg", "Node", "rel", "q", "[Int!]", "FieldArgumentChangedType"),     # argument of an interface field
    ("arg", "Node", "rel", "k", "Int", "FieldArgumentChangedType"),
    ("field", "A", "rel", "Node", "FieldChangedType"),                    # the implementing object's copy only (covariant retypings keep the schema valid)
    ("field", "A", "id", "ID!", "FieldChangedType"),
)
RETYPE_WRAPS = ("", "!", "[", "[!", "![", "![!", "[[", "![[!")


def split_type(t):
    """'[Int!]!' -> ('![!', 'Int')   (wrappers outside-in)"""
    w = ""
    while True:
        if t.endswith("!"):
            w += "!"
            t = t[:-1]
        elif t.startswith("["):
            w += "["
            t = t[1:-1]
        else:
            return w, t


def join_type(w, base):
    t = base
    for c in reversed(w):
        t = (t + "!") if c == "!" else ("[%s]" % t)
    return t


ORDERS = (None, "reversed")


_BUILT = {}


def built(sdl):
    """schemas are only read by the differ and the validator: one build per distinct SDL text and process"""
    if sdl not in _BUILT:
        if len(_BUILT) > 64:
            _BUILT.clear()
        _BUILT[sdl] = build_schema(sdl)
    return _BUILT[sdl]


def changes_of(old_sdl, new_sdl):
    old, new = built(old_sdl), built(new_sdl)
    ch = list(diff_schema(old, new))
    return old, new, sorted((type(c).__name__, c.message, int(c.severity)) for c in ch)


_CORPUS_DOCS = None
_VALID = {}


def valid_on(schema, i):
    key = (id(schema), i)
    if key not in _VALID:
        if len(_VALID) > 5000:
            _VALID.clear()
        _VALID[key] = (schema, not validate_ast(schema, _CORPUS_DOCS[i]).errors)      # the schema is kept alive so that its id stays unique
    return _VALID[key][1]


def corpus_ok(old, new):
    """every corpus operation valid against old is valid against new"""
    global _CORPUS_DOCS
    if _CORPUS_DOCS is None:
        _CORPUS_DOCS = [parse(q) for q in CORPUS]
    for i, q in enumerate(CORPUS):
        if valid_on(old, i) and not valid_on(new, i):
            return False, q
    return True, None


def check_pair(m_old, m_new, expect_cls, expect_names, order_new):
    old_sdl = render(m_old)
    order = list(reversed(m_new["order"])) if order_new == "reversed" else None
    new_sdl = render(m_new, order)
    old, new, ch = changes_of(old_sdl, new_sdl)
    # same result when the other schema is also spelled in another order
    _, _, ch2 = changes_of(render(m_old, list(reversed(m_old["order"]))), render(m_new))
    if ch != ch2:
        return False
    # ... and when the members INSIDE every definition (fields, arguments, enum values, union members, locations, interfaces) come in another order
    _, _, ch3 = changes_of(render(m_old, None, True), render(m_new, order))
    _, _, ch4 = changes_of(render(m_old), render(m_new, order, True))
    if ch != ch3 or ch != ch4:
        return False
    if expect_cls is not None:
        hit = [c for c in ch if c[0] == expect_cls and all(n in c[1] for n in expect_names)]
        if not hit:
            return False
    breaking = [c for c in ch if c[2] >= int(SchemaChangeSeverity.BREAKING)]
    if not breaking:
        ok, q = corpus_ok(old, new)
        if not ok:
            return False
    return True


def _identity(order: int) -> bool:
    """
    pre: 0 <= order <= 1
    post: _
    """
    o = pick(order, ORDERS)
    with untraced():
        m = base_model()
        old_sdl = render(m)
        new_sdl = render(m, list(reversed(m["order"])) if o else None)
        _, _, ch = changes_of(old_sdl, new_sdl)
        ok = ch == []
        # the corpus really is valid against the base schema (anti-vacuity of the client check)
        old = build_schema(old_sdl)
        ok = ok and all(not validate_ast(old, parse(q)).errors for q in CORPUS)
    return result(ok, True)


def _edits_single(e1: int, e2: int, order: int) -> bool:
    """
    pre: 0 <= e1 < len(EDITS) and -1 <= e2 < len(EDITS) and e2 < e1
    pre: 0 <= order <= 1
    pre: shard_of(e1 + e2 + 1)
    post: _
    """
    i = concrete_int(e1, 0, len(EDITS) - 1)
    j = concrete_int(e2, -1, len(EDITS) - 1)
    o = pick(order, ORDERS)
    with untraced():
        m_old, m_new = base_model(), base_model()
        label, fn, cls, names = EDITS[i]
        if j >= 0 and not compatible(EDITS[i], EDITS[j]):
            return result(True, False)
        try:
            fn(m_new)
            if j >= 0:
                EDITS[j][1](m_new)
            render(m_new)
            build_schema(render(m_new)).validate()
        except Exception:
            return result(True, False)        # the two edits are not compatible (e.g. both remove the same element)
        ok = check_pair(m_old, m_new, cls, names, o)
        if ok and j >= 0:
            ok = check_pair(m_old, m_new, EDITS[j][2], EDITS[j][3], o)
    return result(ok, True)


DEFAULT_MODES = ("as in the base schema", "default added", "default removed", "default changed")
DEFAULT_CHANGE_CLASS = {"arg": "FieldArgumentDefaultValueChange", "input": "InputFieldDefaultValueChange", "dirarg": "DirectiveArgumentDefaultValueChange"}


def literal_for(w, base, variant):
    lit = {"Int": ("7", "8"), "String": ('"q"', '"r"'), "In": ("{f: 1}", "{f: 2}")}[base][variant]
    for c in w:
        if c == "[":
            lit = "[%s]" % lit
    return lit


def _retype(site: int, w: int, other: bool, order: int, dflt: int = 0) -> bool:
    """
    pre: 0 <= site < len(RETYPE_SITES) and 0 <= w < len(RETYPE_WRAPS) and 0 <= order <= 1 and 0 <= dflt < len(DEFAULT_MODES)
    pre: shard_of(site * 4 + dflt)
    post: _
    """
    s = pick(site, RETYPE_SITES)
    nw = pick(w, RETYPE_WRAPS)
    oth = True if other else False
    o = pick(order, ORDERS)
    DM = concrete_int(dflt, 0, len(DEFAULT_MODES) - 1)
    if DM and s[0] == "field":
        return result(True, False)
    with untraced():
        m_old, m_new = base_model(), base_model()
        kind = s[0]
        old_t = s[-2]
        ow, base = split_type(old_t)
        nbase = base
        if oth:
            nbase = {"Int": "String", "A": "B", "In": "Int", "Node": "B", "ID": "String"}[base]
        new_t = join_type(nw, nbase)
        if kind == "field":
            m_new[s[1]]["fields"][s[2]]["type"] = new_t
            if s[1] == "Node":
                m_new["A"]["fields"][s[2]]["type"] = new_t
            names = [s[1], s[2]]
        elif kind == "arg":
            m_new[s[1]]["fields"][s[2]]["args"][s[3]]["type"] = new_t

            if m_new[s[1]]["fields"][s[2]]["args"][s[3]].get("default") is not None and (oth or "[" in nw):
                m_new[s[1]]["fields"][s[2]]["args"][s[3]]["default"] = None
                m_old[s[1]]["fields"][s[2]]["args"][s[3]]["default"] = None
            names = [s[1], s[2], s[3]]
        elif kind == "input":
            m_new[s[1]]["fields"][s[2]]["type"] = new_t
            names = [s[1], s[2]]
        else:
            m_new["@" + s[1]]["args"][s[2]]["type"] = new_t
            names = [s[1], s[2]]
        if DM:
            # the same input position ALSO gets / loses / changes its default in the same step
            def slot(m):
                return m[s[1]]["fields"][s[2]]["args"][s[3]] if kind == "arg" else (m[s[1]]["fields"][s[2]] if kind == "input" else m["@" + s[1]]["args"][s[2]])
            slot(m_old)["default"] = None if DM == 1 else literal_for(ow, base, 0)
            slot(m_new)["default"] = None if DM == 2 else literal_for(nw, nbase, 1)
        if s[1] == "Node" and kind == "arg":
            for mm in (m_old, m_new):
                mm["A"]["fields"][s[2]]["args"][s[3]] = copy.deepcopy(mm["Node"]["fields"][s[2]]["args"][s[3]])
        if new_t == old_t:
            return result(True, False)
        try:
            build_schema(render(m_old)).validate()
            build_schema(render(m_new)).validate()
        except Exception:
            return result(True, False)
        same = not oth
        safe = subtype(nw, ow, same) if kind == "field" else subtype(ow, nw, same)
        if kind == "field" and not safe and known.c20_output_list_item_relaxed(ow, nw, same):
            return result(True, False)
        if safe and known.c20_safe_retype_unreported():
            # documented: 'Some compatible type changes are ignored' - only the soundness half is checked
            ok = check_pair(m_old, m_new, None, [], o)
        else:
            ok = check_pair(m_old, m_new, s[-1], names, o)
            if ok and not safe:
                # an unsafe retyping must be reported as BREAKING
                _, _, ch = changes_of(render(m_old), render(m_new))
                ok = any(c[0] == s[-1] and c[2] >= int(SchemaChangeSeverity.BREAKING) for c in ch)
        if ok and DM:
            # ... and the default edit is reported too, naming the element
            _, _, ch = changes_of(render(m_old), render(m_new))
            ok = any(c[0] == DEFAULT_CHANGE_CLASS[kind] and all(n in c[1] for n in names) for c in ch)
    return result(ok, True)


# ---- two positions retyped in ONE diff: independent edits compose (the verdict for a position does not depend on what else changed, nor on which is visited first)
COMPOSE_SITES = (
    ("field", "B", "b"), ("field", "Query", "v"), ("field", "A", "x"), ("field", "A", "old"),
    ("arg", "Query", "e", "k"), ("arg", "Query", "e", "r"), ("dirarg", "d", "x"), ("dirarg", "d", "y"), ("input", "In", "f"),
)


def _compose_slot(m, s):
    if s[0] == "field":
        return m[s[1]]["fields"][s[2]]
    if s[0] == "arg":
        return m[s[1]]["fields"][s[2]]["args"][s[3]]
    if s[0] == "input":
        return m[s[1]]["fields"][s[2]]
    return m["@" + s[1]]["args"][s[2]]


def _retype_compose(s1: int, s2: int, ow: int, nw: int, order: int) -> bool:
    """
    pre: 0 <= s1 < s2 and s2 < len(COMPOSE_SITES) and 0 <= ow < len(RETYPE_WRAPS) and 0 <= nw < len(RETYPE_WRAPS) and ow != nw and 0 <= order <= 1
    pre: shard_of(s1 * 3 + s2 + ow)
    post: _
    """
    A1, A2 = pick(s1, COMPOSE_SITES), pick(s2, COMPOSE_SITES)
    OW, NW = pick(ow, RETYPE_WRAPS), pick(nw, RETYPE_WRAPS)
    o = pick(order, ORDERS)
    with untraced():
        old_t, new_t = join_type(OW, "Int"), join_type(NW, "Int")
        m_old = base_model()
        for s in (A1, A2):
            _compose_slot(m_old, s)["type"] = old_t
            _compose_slot(m_old, s)["default"] = None
        m1, m2, m12 = copy.deepcopy(m_old), copy.deepcopy(m_old), copy.deepcopy(m_old)
        _compose_slot(m1, A1)["type"] = new_t
        _compose_slot(m2, A2)["type"] = new_t
        _compose_slot(m12, A1)["type"] = new_t
        _compose_slot(m12, A2)["type"] = new_t
        try:
            for m in (m_old, m1, m2, m12):
                build_schema(render(m)).validate()
        except Exception:
            return result(True, False)
        new_order = list(reversed(m_old["order"])) if o else None
        _, _, c1 = changes_of(render(m_old), render(m1, new_order))
        _, _, c2 = changes_of(render(m_old), render(m2, new_order))
        _, _, c12 = changes_of(render(m_old), render(m12, new_order))
        ok = c12 == sorted(c1 + c2)
        if ok:
            # soundness on the client corpus for the combined edit as well
            ok = check_pair(m_old, m12, None, [], o)
    return result(ok, bool(c1) != bool(c2))


# ---- root operation types: which type serves query / mutation is part of what clients rely on
ROOT_EDITS = (
    ("query root moved to another existing type", "schema { query: A1 } type A1 { a: Int } type A2 { b: Int }", "schema { query: A2 } type A1 { a: Int } type A2 { b: Int }", "{ a }"),
    ("mutation root dropped, its type kept", "schema { query: Q mutation: M } type Q { a: M } type M { m: Int }", "schema { query: Q } type Q { a: M } type M { m: Int }", "mutation { m }"),
    ("mutation root moved", "schema { query: Q mutation: M } type Q { a: M } type M { m: Int }", "schema { query: Q mutation: Q } type Q { a: M } type M { m: Int }", "mutation { m }"),
    ("nothing changed", "schema { query: Q mutation: M } type Q { a: M } type M { m: Int }", "schema { mutation: M query: Q } type M { m: Int } type Q { a: M }", "mutation { m }"),
)


def _root_types(e: int) -> bool:
    """
    pre: 0 <= e < len(ROOT_EDITS)
    post: _
    """
    label, old_sdl, new_sdl, probe_op = pick(e, ROOT_EDITS)
    with untraced():
        old, new, ch = changes_of(old_sdl, new_sdl)
        breaking = [c for c in ch if c[2] >= int(SchemaChangeSeverity.BREAKING)]
        was_valid = not validate_ast(old, parse(probe_op)).errors
        still_valid = not validate_ast(new, parse(probe_op)).errors
        if label == "nothing changed":
            return result(ch == [] and was_valid and still_valid, True)
        if known.c20_root_types_not_compared():
            return result(True, False)
        ok = was_valid and (still_valid or bool(breaking))
    return result(ok, True)


# ---- the new schema is DERIVED from the old one (transform / clone), not built from a second text: its types still carry the old definition nodes
DERIVATIONS = (
    ("hide field A.x", ("field", "A", "x")), ("hide field Query.b", ("field", "Query", "b")), ("hide input field In.g", ("input", "In", "g")), ("hide input field In.f", ("input", "In", "f")),
    ("hide type B", ("type", "B")), ("hide enum E", ("type", "E")), ("hide directive d", ("directive", "d")), ("hide interface field Node.rel", ("field", "Node", "rel")), ("clone", None),
    ("hide field A.x and input field In.h", ("field", "A", "x"), ("input", "In", "h")),
)


def _derived_new(d: int, order: int) -> bool:
    """
    pre: 0 <= d < len(DERIVATIONS) and 0 <= order <= 1
    post: _
    """
    from py_gql.schema.transforms import VisibilitySchemaTransform, transform_schema
    label = pick(d, DERIVATIONS)
    hidden = [h for h in label[1:] if h is not None]
    o = pick(order, ORDERS)
    with untraced():
        class Hide(VisibilitySchemaTransform):
            def is_type_visible(self, name):
                return ("type", name) not in hidden

            def is_field_visible(self, typename, fieldname):
                return ("field", typename, fieldname) not in hidden

            def is_input_field_visible(self, typename, fieldname):
                return ("input", typename, fieldname) not in hidden

            def is_directive_visible(self, name):
                return ("directive", name) not in hidden
        m = base_model()
        old = build_schema(render(m, list(reversed(m["order"])) if o == "reversed" else None))
        derived = transform_schema(old, Hide()) if hidden else old.clone()
        rebuilt = build_schema(derived.to_string())
        direct = sorted((type(c).__name__, c.message, int(c.severity)) for c in diff_schema(old, derived))
        via_text = sorted((type(c).__name__, c.message, int(c.severity)) for c in diff_schema(old, rebuilt))
        ok = direct == via_text and (bool(direct) == bool(hidden))
        if ok and not [c for c in direct if c[2] >= int(SchemaChangeSeverity.BREAKING)]:
            ok, _ = corpus_ok(old, derived)
    return result(ok, bool(hidden))


# ---- code-built enums: the GraphQL-visible NAME is what clients see; the internal Python value is not part of the contract
ENUM_BASE = (("RED", 1, None), ("GREEN", "g", None), ("BLUE", (0, 0, 255), "old"))
ENUM_EDITS = (
    ("identity", ENUM_BASE, []),
    ("rename-keeping-the-internal-value", (("CRIMSON", 1, None),) + ENUM_BASE[1:], [("EnumValueRemoved", "RED", True), ("EnumValueAdded", "CRIMSON", False)]),
    ("internal-value-changed-only", (("RED", 99, None),) + ENUM_BASE[1:], []),
    ("internal-values-swapped", (("RED", "g", None), ("GREEN", 1, None), ENUM_BASE[2]), []),
    ("value-added", ENUM_BASE + (("PINK", "p", None),), [("EnumValueAdded", "PINK", False)]),
    ("value-removed", ENUM_BASE[:2], [("EnumValueRemoved", "BLUE", True)]),
    ("value-removed-and-another-takes-its-internal-value", (("RED", 1, None), ("GREEN", (0, 0, 255), None)), [("EnumValueRemoved", "BLUE", True)]),
    ("deprecated", (("RED", 1, "why"),) + ENUM_BASE[1:], [("EnumValueDeprecated", "RED", False)]),
    ("reordered", ENUM_BASE[::-1], []),
)


def enum_schema(values):
    from py_gql.schema import Argument, EnumType, EnumValue, Field, Int, ObjectType, Schema
    color = EnumType("Color", [EnumValue(n, v, deprecation_reason=d) for n, v, d in values])
    return Schema(ObjectType("Query", [Field("paint", color, args=[Argument("c", color), Argument("n", Int)])]))


def _enum_internal(e: int, flip: bool) -> bool:
    """
    pre: 0 <= e < len(ENUM_EDITS)
    post: _
    """
    label, values, expected = pick(e, ENUM_EDITS)
    FL = True if flip else False
    with untraced():
        old, new = enum_schema(ENUM_BASE), enum_schema(values)
        if FL and not expected:
            old, new = new, old               # symmetric cases: also the other way round
        ch = sorted((type(c).__name__, c.message, int(c.severity)) for c in diff_schema(old, new))
        ok = len(ch) == len(expected)
        for cls, name, breaking in expected:
            hit = [c for c in ch if c[0] == cls and name in c[1]]
            ok = ok and len(hit) == 1 and (hit[0][2] >= int(SchemaChangeSeverity.BREAKING)) == breaking
        if not [c for c in ch if c[2] >= int(SchemaChangeSeverity.BREAKING)]:
            for q in ("{ paint(c: RED) }", "{ paint(c: GREEN) }", "{ paint(c: BLUE) }", "query ($c: Color = RED) { paint(c: $c) }"):
                if not validate_ast(old, parse(q)).errors and validate_ast(new, parse(q)).errors:
                    ok = False
    return result(ok, bool(expected))


# ---- SEVERAL unions sharing members: every union is compared on its own
MU_MEMBERS = ("A", "B", "C", "D")
MU_OLD = ((0b0011, 0b0011, 0b1100), (0b0111, 0b0110, 0b0001), (0b1111, 0b0001, 0b1000), (0b0101, 0b1010, 0b1111))


def mu_sdl(masks, rev):
    unions = ["union U%d = %s" % (k, " | ".join(m for i, m in enumerate(MU_MEMBERS) if masks[k] >> i & 1)) for k in range(3)]
    fields = " ".join("u%d: U%d" % (k, k) for k in range(3))
    types = ["type %s { %s: Int }" % (m, m.lower()) for m in MU_MEMBERS]
    parts = ["type Query { %s }" % fields] + types + unions
    if rev:
        parts.reverse()
    return " ".join(parts)


def _multi_unions(old: int, f1: int, f2: int, rev_old: bool, rev_new: bool) -> bool:
    """
    pre: 0 <= old < len(MU_OLD) and 0 <= f1 < 12 and -1 <= f2 < 12 and f2 < f1
    post: _
    """
    OLD, F1 = pick(old, MU_OLD), concrete_int(f1, 0, 11)
    F2 = concrete_int(f2, -1, 11)
    RO, RN = (True if rev_old else False), (True if rev_new else False)
    with untraced():
        newm = list(OLD)
        for f in (F1, F2):
            if f >= 0:
                newm[f // 4] ^= 1 << (f % 4)
        if any(m == 0 for m in newm):
            return result(True, False)          # a union without members is not a schema
        o, n = build_schema(mu_sdl(OLD, RO)), build_schema(mu_sdl(newm, RN))
        got = sorted((type(c).__name__, c.message, int(c.severity)) for c in diff_schema(o, n))
        exp = []
        for k in range(3):
            for i, m in enumerate(MU_MEMBERS):
                was, now = OLD[k] >> i & 1, newm[k] >> i & 1
                if was and not now:
                    exp.append(("TypeRemovedFromUnion", "U%d" % k, m))
                elif now and not was:
                    exp.append(("TypeAddedToUnion", "U%d" % k, m))
        # exactly one change per edited (union, member) pair, naming both; a removal is BREAKING
        ok = len(got) == len(exp)
        for cls, u, m in exp:
            hits = [g for g in got if g[0] == cls and u in g[1] and m in g[1].replace(u, "")]
            ok = ok and len(hits) == 1 and (cls != "TypeRemovedFromUnion" or hits[0][2] == int(SchemaChangeSeverity.BREAKING))
    return result(ok, F2 >= 0)


CONDITIONS = [
    Cond(
        name="multi_unions", fn=_multi_unions, quick=100, thorough=100,
        bound="three unions over four shared object types, 4 old membership patterns x every single membership flip and every pair of flips (in one union or in two) x both definition orders of the old and of "
              "the new schema: exactly one change per edited (union, member) pair naming both, removals BREAKING, nothing reported for the unions that did not change",
        symbolic={"old,f1,f2,rev_old,rev_new": "choice"}, witness={"old": 0, "f1": 5, "f2": -1, "rev_old": False, "rev_new": False},
    ),
    Cond(
        name="derived_new", fn=_derived_new, quick=60, thorough=60,
        bound="the new schema DERIVED from the old one (%d derivations: visibility transforms hiding a field / interface field / input field / type / enum / directive / two things, clone) x 2 definition orders of the old text: "
              "diffing against the derived schema reports exactly what diffing against a schema re-built from the derived schema's SDL reports; nothing for a clone; without a breaking change the client corpus stays valid" % len(DERIVATIONS),
        symbolic={"d": "choice: derivation", "order": "choice"}, witness={"d": 0, "order": 0},
    ),
    Cond(
        name="root_types", fn=_root_types, quick=30, thorough=30,
        bound="%d edits of the root operation types (query root moved to another existing type, mutation root dropped / moved while its type stays, no change in another order): an operation valid before is valid after unless a breaking change is reported" % len(ROOT_EDITS),
        symbolic={"e": "choice: the edit"}, witness={"e": 3},
    ),
    Cond(
        name="retype_compose", fn=_retype_compose, quick=90, thorough=300, per_path=60, shards_quick=16, shards_thorough=16,
        bound="TWO positions retyped in one diff with the same old and new type text: every pair of %d sites (4 output fields, 2 field arguments, 2 directive arguments, an input field) x every ordered pair of %d wrapper shapes over Int "
              "x 2 definition orders: the changes reported for the combined edit are exactly the changes reported for each edit alone (so the verdict for a position depends neither on what else changed nor on visiting order), "
              "and the combined edit is sound on the client corpus" % (len(COMPOSE_SITES), len(RETYPE_WRAPS)),
        symbolic={"s1,s2": "choice: the two sites", "ow,nw": "choice: old / new wrappers", "order": "choice: definition order of the new schema"},
        assumptions=["metamorphic: the single-site verdicts themselves are decided against the variance oracle by `retype` / `type_change`"],
        witness={"s1": 0, "s2": 4, "ow": 1, "nw": 0, "order": 0},
    ),
    Cond(
        name="type_change", fn=_type_change, quick=100, thorough=200, per_path=30,
        bound="old and new type: every wrapper list of <= 4 wrappers (19 x 19) over the same or a different named type, input and output predicate: real 'safe' implies the variance oracle",
        symbolic={"ow,nw": "choice: wrapper lists", "same": "choice", "position": "choice: output/input"},
        assumptions=["oracle: output safe <=> every value of the new type is a value of the old; input safe <=> every value of the old type is accepted by the new"],
        witness={"ow": 1, "nw": 0, "same": True, "position": False},
    ),
    Cond(name="enum_internal", fn=_enum_internal, quick=30, thorough=30,
         bound="code-built enum whose internal values differ from the names (int, str, tuple) x 9 edits (rename keeping the internal value, internal value changed / swapped only, value added / removed / removed while another "
               "name takes over its internal value, deprecated, reordered): changes are about NAMES only, with the right severity; no breaking change => the enum literals clients use still validate",
         symbolic={"e": "choice: edit", "flip": "choice: direction for symmetric cases"}, witness={"e": 1, "flip": False}),
    Cond(name="identity", fn=_identity, quick=30, thorough=30, bound="base schema vs itself, 2 definition orders; corpus validity", witness={"order": 1},
         symbolic={"order": "choice"}),
    Cond(
        name="edits", fn=_edits_single, quick=240, thorough=600, per_path=60, shards_quick=16, shards_thorough=16,
        bound="every single edit and every compatible pair of the %d elementary edits on the base schema, 2 definition orders of the new schema (+ reversed old schema)" % len(EDITS),
        symbolic={"e1,e2": "choice: edits", "order": "choice"},
        assumptions=["'every operation valid against the old schema' is the fixed client corpus CORPUS (%d operations)" % len(CORPUS)],
        witness={"e1": 3, "e2": -1, "order": 0},
    ),
    Cond(
        name="retype", fn=_retype, quick=100, thorough=300, per_path=60, shards_quick=16, shards_thorough=16,
        bound="7 retyping sites (object field, interface-typed field, arguments, input fields, directive argument) x 8 new wrapper lists x same/other named type x 2 orders "
              "x what happens to the default of the SAME input position in the same step (unchanged / added / removed / changed): the unsafe retyping is reported BREAKING and the default edit is reported too",
        symbolic={"site,w,other,order,dflt": "choice"}, witness={"site": 0, "w": 2, "other": False, "order": 0, "dflt": 0},
    ),
]
