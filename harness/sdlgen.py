"""Generator of type-system documents from a plain 'declared content' record, used by C11 / C12 / C14 / C15.

A record (dict) is the oracle's view: what the SDL declares.  render(record, ...) spells it as SDL, optionally
splitting members over `extend` blocks and permuting definitions; snapshot(schema) reads a built py_gql Schema
back through public attributes into the same normal form, so that `snapshot(build_schema(render(r))) == normal(r)`
is the fidelity property.
"""
import copy

from py_gql.schema import (
    EnumType, InputObjectType, InterfaceType, ListType, NonNullType, ObjectType, ScalarType, UnionType, SPECIFIED_DIRECTIVES, SPECIFIED_SCALAR_TYPES,
)
from py_gql.schema.introspection import is_introspection_type

DEFAULT_KINDS = (
    # (label, arg type, SDL literal, coerced python value)
    ("none", "Int", None, None),
    ("int", "Int", "2147483647", 2147483647),
    ("int-min", "Int", "-2147483648", -2147483648),
    ("null", "Int", "null", None),
    ("string", "String", '"a \\"q\\" \\\\ b"', 'a "q" \\ b'),
    ("bool", "Boolean", "false", False),
    ("float", "Float", "1.5", 1.5),
    ("enum", "Color", "BLUE", "BLUE"),
    ("list", "[Int!]", "[1, 2]", [1, 2]),
    ("list-coerced", "[Int]", "3", [3]),
    ("object", "In", "{f: 1}", {"f": 1}),
    ("id", "ID", "5", "5"),
    ("object-nested", "In", "{f: 1, other: {}}", {"f": 1, "other": {}}),
)


def base_record(opts):
    """opts: dict of generator choices (all concrete)"""
    o = dict(desc=False, dep=False, default=0, recursion=0, schema_def=False, present=0xFF, mutation=True, roots=0, text=0)
    o.update(opts)
    # roots: 0 as given by schema_def; 2 schema definition with SWAPPED conventional names; 3 schema definition that lists only the
    # query root although a type named Mutation exists; 4 as 3 plus `extend schema { mutation: Mutation }`
    if o["roots"] >= 2:
        o["schema_def"], o["mutation"] = True, True
    suffix = TEXT_SUFFIXES[o["text"]]           # appended to EVERY description and deprecation reason
    empty_reasons = suffix == EMPTY_REASONS     # ... except for the last entry: every deprecation reason is the EMPTY string (still deprecated), descriptions as they are
    if empty_reasons:
        suffix = ""
    # (the last text also gets an indented FIRST line: no block string can carry that)
    d = (lambda s: ("  " if o["text"] == 9 else "") + s + suffix) if o["desc"] else (lambda s: None)
    dep = ((lambda s: "") if empty_reasons else (lambda s: s + suffix)) if o["dep"] else (lambda s: None)
    qname = "RootQ" if o["schema_def"] else "Query"
    mname = "RootM" if o["schema_def"] else "Mutation"
    if o["roots"] == 2:
        qname, mname = "Mutation", "Query"
    elif o["roots"] >= 3:
        qname, mname = "Query", "Mutation"
    label, dtype, dlit, dval = DEFAULT_KINDS[o["default"]]
    if label == "object-nested":
        o["recursion"] = max(o["recursion"], 2)         # the nested input type In2 must exist
    has = lambda bit: bool(o["present"] >> bit & 1)   # noqa: E731
    rec = {"order": [], "types": {}, "directives": {}, "roots": {"query": qname, "mutation": mname if o["mutation"] else None, "subscription": None},
           "schema_def": o["schema_def"], "schema_ext": None}
    if o["roots"] == 3:
        rec["roots"]["mutation"] = None                      # the type named Mutation is an ordinary type
    elif o["roots"] == 4:
        rec["roots"]["mutation"] = None
        rec["schema_ext"] = {"mutation": "Mutation"}          # ... until a schema extension makes it the mutation root

    def add(name, t):
        rec["types"][name] = t
        rec["order"].append(name)

    qfields = [
        {"name": "a", "type": "A", "args": [], "desc": d("field a"), "dep": None},
        {"name": "e", "type": "Int", "desc": None, "dep": dep("old e"), "args": (
            [{"name": "before", "type": "Int", "default": None, "desc": None},          # a PARTLY documented argument list: undocumented, documented, undocumented with a default
             {"name": "k", "type": dtype, "default": (dlit, dval) if dlit is not None else None, "desc": d("arg k")},
             {"name": "after", "type": "String", "default": ('"z"', "z"), "desc": None}]
            if (dtype not in ("Color", "In") or (dtype == "Color" and has(2)) or (dtype == "In" and has(3))) else [])},
        {"name": "s", "type": "String!", "args": [{"name": "x", "type": "[String!]!", "default": None, "desc": None}], "desc": None, "dep": None},
    ]
    afields = [
        {"name": "id", "type": "ID!", "args": [], "desc": d("the id"), "dep": None},
        {"name": "n", "type": "[Int!]", "args": [], "desc": None, "dep": dep("no n")},
    ]
    bfields = [{"name": "b", "type": "Int", "args": [], "desc": None, "dep": None}]
    if o["recursion"] in (1, 3):
        afields.append({"name": "self", "type": "A", "args": [], "desc": None, "dep": None})
    if o["recursion"] in (2, 3):
        afields.append({"name": "other", "type": "B!", "args": [], "desc": None, "dep": None})
        bfields.append({"name": "back", "type": "[A]", "args": [], "desc": None, "dep": None})
    if has(0):
        afields_iface = ["Node"]
        add("Node", {"kind": "interface", "desc": d("a node"), "fields": [{"name": "id", "type": "ID!", "args": [], "desc": None, "dep": None}]})
    else:
        afields_iface = []
    add(qname, {"kind": "object", "desc": d("the query root"), "interfaces": [], "fields": qfields})
    add("A", {"kind": "object", "desc": d("type A\nsecond line"), "interfaces": afields_iface, "fields": afields})
    add("B", {"kind": "object", "desc": None, "interfaces": [], "fields": bfields})
    if o["mutation"]:
        add(mname, {"kind": "object", "desc": None, "interfaces": [], "fields": [{"name": "m", "type": "Int", "args": [], "desc": None, "dep": None}]})
        if o["roots"] >= 3:
            qfields.append({"name": "mm", "type": "Mutation", "args": [], "desc": None, "dep": None})       # keep the ordinary type reachable
    if has(1):
        add("U", {"kind": "union", "desc": d("a union"), "members": ["A", "B"]})
        qfields.append({"name": "u", "type": "U", "args": [], "desc": None, "dep": None})
    if has(2):
        add("Color", {"kind": "enum", "desc": d("colors"), "values": [{"name": "RED", "desc": d("red"), "dep": None}, {"name": "BLUE", "desc": None, "dep": dep("no blue")},
                                                                     {"name": "GREEN", "desc": None, "dep": None}]})
        qfields.append({"name": "c", "type": "Color", "args": [], "desc": None, "dep": None})
    if has(3):
        infields = [{"name": "f", "type": "Int!", "default": None, "desc": d("f")}, {"name": "g", "type": "String", "default": ('"s"', "s"), "desc": None}]
        if o["recursion"] >= 1:
            infields.append({"name": "again", "type": "[In!]", "default": None, "desc": None})
        add("In", {"kind": "input", "desc": d("input"), "fields": infields})
        if o["recursion"] >= 2:
            infields.append({"name": "other", "type": "In2", "default": None, "desc": None})
            add("In2", {"kind": "input", "desc": None, "fields": [{"name": "back", "type": "In", "default": None, "desc": None},
                                                                  {"name": "lim", "type": "Int", "default": ("9", 9), "desc": None}]})
        qfields.append({"name": "i", "type": "Int", "args": [{"name": "in", "type": "In", "default": None, "desc": None}], "desc": None, "dep": None})
    if has(4):
        add("Date", {"kind": "scalar", "desc": d("a date")})
        qfields.append({"name": "d", "type": "Date", "args": [], "desc": None, "dep": None})
    if has(5):
        rec["directives"]["tag"] = {"desc": d("a tag"), "locations": ["FIELD_DEFINITION", "OBJECT"],
                                    "args": [{"name": "v", "type": "Int", "default": ("1", 1), "desc": None}, {"name": "w", "type": "String!", "default": None, "desc": d("the w")},
                                             {"name": "u", "type": "[Int]", "default": None, "desc": None}]}
        rec["order"].append("@tag")
    # types that no field refers to: one that is only known as an implementation of the interface, one that nothing refers to at all
    if has(0):
        add("Impl", {"kind": "object", "desc": d("only reachable as an implementation"), "interfaces": ["Node"],
                     "fields": [{"name": "id", "type": "ID!", "args": [], "desc": None, "dep": None}, {"name": "extra", "type": "Int", "args": [], "desc": None, "dep": dep("no extra")}]})
    add("Orphan", {"kind": "object", "desc": None, "interfaces": [], "fields": [{"name": "o", "type": "Int", "args": [], "desc": None, "dep": None}]})
    if o["dep"] == 2:
        # EVERY member of the second object type, the interface and the enum is deprecated (still a valid schema)
        for tname in ("B", "Node", "Color"):
            t = rec["types"].get(tname)
            for m in (t or {}).get("fields", []) + (t or {}).get("values", []):
                m["dep"] = m.get("dep") or "all of %s is deprecated" % tname
    return rec


EMPTY_REASONS = "<every deprecation reason is the empty string>"
TEXT_SUFFIXES = ("", ' "q" \\ b', "\nsecond line", " \u00e9\u2713", " \U0001F600", " tail\\", ' quote"', "\tx", " \u2028\u0085 seps", "\n  all later lines indented\n   too", "\n   \nafter a line of blanks\n\t\nand one of tabs", EMPTY_REASONS)


def quote(text):
    """a quoted GraphQL string whose value is `text` (escapes of the specification only; everything else, astral characters included, raw)"""
    out = []
    for ch in text:
        if ch == "\\":
            out.append("\\\\")
        elif ch == '"':
            out.append('\\"')
        elif ch == "\n":
            out.append("\\n")
        elif ch == "\t":
            out.append("\\t")
        elif ord(ch) < 0x20:
            out.append("\\u%04x" % ord(ch))
        else:
            out.append(ch)
    return '"%s"' % "".join(out)


def _desc(text, indent=""):
    if text is None:
        return ""
    if "\n" in text and '"' not in text and "\\" not in text:
        raw = "\n%s%s\n%s" % (indent, text.replace("\n", "\n" + indent), indent)
        from oracles.ref_lexer import block_string_value
        if block_string_value(raw) == text:            # BlockStringValue() of the specification gives the text back
            return '%s"""%s"""\n' % (indent, raw)
    return '%s%s\n' % (indent, quote(text))


def _dep(reason):
    return (' @deprecated(reason: %s)' % quote(reason)) if reason is not None else ""


def _args(args):
    if not args:
        return ""
    return "(" + ", ".join(
        ("%s%s: %s%s" % ((quote(a["desc"]) + " ") if a.get("desc") else "", a["name"], a["type"], (" = " + a["default"][0]) if a.get("default") else ""))
        for a in args) + ")"


def _field_lines(fields):
    return "".join("%s  %s%s: %s%s\n" % (_desc(f.get("desc"), "  "), f["name"], _args(f.get("args", [])), f["type"], _dep(f.get("dep"))) for f in fields)


def _input_lines(fields):
    return "".join("%s  %s: %s%s\n" % (_desc(f.get("desc"), "  "), f["name"], f["type"], (" = " + f["default"][0]) if f.get("default") else "") for f in fields)


def _enum_lines(values):
    return "".join("%s  %s%s\n" % (_desc(v.get("desc"), "  "), v["name"], _dep(v.get("dep"))) for v in values)


def split_members(members, mode):
    """-> (base members, [extension blocks])"""
    if mode == 0 or len(members) < 2:
        return members, []
    if mode == 1:
        return members[:-1], [members[-1:]]
    if len(members) >= 3:
        return members[:1], [members[1:2], members[2:]]
    return members[:1], [members[1:]]


class _Named(list):
    """list of definition texts that remembers which record entry produced each of them"""
    def __init__(self):
        super().__init__()
        self.names, self.current = [], None

    def append(self, x):
        self.names.append(self.current)
        super().append(x)

    def insert(self, i, x):
        self.names.insert(i, self.current)
        super().insert(i, x)


def render(rec, split=None, order="as-is", ext_first=False, parts=False):
    """split: dict type name -> mode (0 none, 1 last member in an extension, 2 first member in base, rest in two extensions)"""
    split = split or {}
    defs, exts = _Named(), []
    for name in rec["order"]:
        defs.current = name
        if name.startswith("@"):
            d = rec["directives"][name[1:]]
            defs.append("%sdirective @%s%s on %s" % (_desc(d["desc"]), name[1:], _args(d["args"]), " | ".join(d["locations"])))
            continue
        t = rec["types"][name]
        k = t["kind"]
        mode = split.get(name, 0)
        if k in ("object", "interface"):
            base, blocks = split_members(t["fields"], mode)
            kw = "type" if k == "object" else "interface"
            impl = (" implements " + " & ".join(t["interfaces"])) if t.get("interfaces") else ""
            defs.append("%s%s %s%s {\n%s}" % (_desc(t["desc"]), kw, name, impl, _field_lines(base)))
            for b in blocks:
                exts.append("extend %s %s {\n%s}" % (kw, name, _field_lines(b)))
        elif k == "union":
            base, blocks = split_members(t["members"], mode)
            defs.append("%sunion %s = %s" % (_desc(t["desc"]), name, " | ".join(base)))
            for b in blocks:
                exts.append("extend union %s = %s" % (name, " | ".join(b)))
        elif k == "enum":
            base, blocks = split_members(t["values"], mode)
            defs.append("%senum %s {\n%s}" % (_desc(t["desc"]), name, _enum_lines(base)))
            for b in blocks:
                exts.append("extend enum %s {\n%s}" % (name, _enum_lines(b)))
        elif k == "input":
            base, blocks = split_members(t["fields"], mode)
            defs.append("%sinput %s {\n%s}" % (_desc(t["desc"]), name, _input_lines(base)))
            for b in blocks:
                exts.append("extend input %s {\n%s}" % (name, _input_lines(b)))
        elif k == "scalar":
            defs.append("%sscalar %s" % (_desc(t["desc"]), name))
    defs.current = None
    if rec["schema_def"]:
        ops = " ".join("%s: %s" % (op, tn) for op, tn in rec["roots"].items() if tn)
        defs.insert(0, "schema { %s }" % ops)
    if rec.get("schema_ext"):
        exts.append("extend schema { %s }" % " ".join("%s: %s" % kv for kv in rec["schema_ext"].items()))
    if parts:
        # [(name of the defined element or None, text)], [extension texts] - for callers that distribute the definitions over several documents
        return list(zip(defs.names, defs)), exts
    if order == "reversed":
        defs = list(reversed(defs))
        exts = list(reversed(exts)) if False else exts          # extension blocks keep their relative (document) order
    elif order == "rotated":
        defs = defs[2:] + defs[:2]
    parts = (exts + defs) if ext_first else (defs + exts)
    return "\n\n".join(parts) + "\n"


def base_only(rec, split):
    """the record of the base definitions alone (what ignore_extensions=True must build)"""
    r = copy.deepcopy(rec)
    r["schema_ext"] = None
    for name, mode in (split or {}).items():
        if name not in r["types"]:
            continue
        t = r["types"][name]
        key = {"object": "fields", "interface": "fields", "union": "members", "enum": "values", "input": "fields"}.get(t["kind"])
        if key:
            t[key] = split_members(t[key], mode)[0]
    return r


def _fill_input_defaults(rec, type_expr, v):
    """an input-object default picks up the defaults of the fields declared in THIS record, recursively"""
    base = type_expr.strip("[]!")
    t = rec["types"].get(base)
    if isinstance(v, list):
        inner = type_expr.rstrip("!")
        inner = inner[1:-1] if inner.startswith("[") else inner
        return [_fill_input_defaults(rec, inner, x) for x in v]
    if not (isinstance(v, dict) and t and t["kind"] == "input"):
        return v
    out = {}
    for f in t["fields"]:
        if f["name"] in v:
            out[f["name"]] = _fill_input_defaults(rec, f["type"], v[f["name"]])
        elif f.get("default"):
            out[f["name"]] = f["default"][1]
    return out


def _coerced_default(rec, a):
    """declared default coerced to its declared type"""
    if not a.get("default"):
        return None
    return ("default", _fill_input_defaults(rec, a["type"], a["default"][1]))


def normal(rec):
    """normal form of a record, comparable with snapshot(schema)"""
    out = {"types": {}, "directives": {}, "roots": dict(rec["roots"])}
    for op, tn in (rec.get("schema_ext") or {}).items():
        out["roots"][op] = tn
    for name, t in rec["types"].items():
        k = t["kind"]
        n = {"kind": k, "desc": t.get("desc")}
        if k in ("object", "interface"):
            n["fields"] = [(f["name"], f["type"], [(a["name"], a["type"], _coerced_default(rec, a), a.get("desc")) for a in f.get("args", [])],
                            f.get("desc"), f.get("dep")) for f in t["fields"]]
            if k == "object":
                n["interfaces"] = list(t.get("interfaces", []))
        elif k == "union":
            n["members"] = list(t["members"])
        elif k == "enum":
            n["values"] = [(v["name"], v.get("desc"), v.get("dep")) for v in t["values"]]
        elif k == "input":
            n["fields"] = [(f["name"], f["type"], ("default", f["default"][1]) if f.get("default") else None, f.get("desc")) for f in t["fields"]]
        out["types"][name] = n
    for name, d in rec["directives"].items():
        out["directives"][name] = {"desc": d.get("desc"), "locations": list(d["locations"]),
                                   "args": [(a["name"], a["type"], ("default", a["default"][1]) if a.get("default") else None, a.get("desc")) for a in d["args"]]}
    return out


def tstr(t):
    if isinstance(t, NonNullType):
        return tstr(t.type) + "!"
    if isinstance(t, ListType):
        return "[%s]" % tstr(t.type)
    return t.name


def _arg_tuple(a):
    return (a.name, tstr(a.type), ("default", a.default_value) if a.has_default_value else None, a.description)


def snapshot(schema):
    """the schema read back through public attributes, in the normal form of `normal`"""
    out = {"types": {}, "directives": {}, "roots": {
        "query": schema.query_type.name if schema.query_type else None,
        "mutation": schema.mutation_type.name if schema.mutation_type else None,
        "subscription": schema.subscription_type.name if schema.subscription_type else None}}
    for name, t in schema.types.items():
        if is_introspection_type(t) or t in SPECIFIED_SCALAR_TYPES:
            continue
        n = {"desc": t.description}
        if isinstance(t, (ObjectType, InterfaceType)):
            n["kind"] = "object" if isinstance(t, ObjectType) else "interface"
            n["fields"] = [(f.name, tstr(f.type), [_arg_tuple(a) for a in f.arguments], f.description, f.deprecation_reason if f.deprecated else None) for f in t.fields]
            if isinstance(t, ObjectType):
                n["interfaces"] = [i.name for i in t.interfaces]
        elif isinstance(t, UnionType):
            n["kind"] = "union"
            n["members"] = [m.name for m in t.types]
        elif isinstance(t, EnumType):
            n["kind"] = "enum"
            n["values"] = [(v.name, v.description, v.deprecation_reason if v.deprecated else None) for v in t.values]
        elif isinstance(t, InputObjectType):
            n["kind"] = "input"
            n["fields"] = [(f.name, tstr(f.type), ("default", f.default_value) if f.has_default_value else None, f.description) for f in t.fields]
        elif isinstance(t, ScalarType):
            n["kind"] = "scalar"
        out["types"][name] = n
    for name, d in schema.directives.items():
        if d in SPECIFIED_DIRECTIVES:
            continue
        out["directives"][name] = {"desc": d.description, "locations": list(d.locations), "args": [_arg_tuple(a) for a in d.arguments]}
    return out
