"""C15 - introspection reports exactly the schema."""
import json

from vf import known  # noqa: F401
from vf.spec import Cond, result, untraced, retraced, shard_of, thorough, concrete_int, pick  # noqa: F401

from py_gql import build_schema, graphql_blocking, process_graphql_query
from py_gql.execution import Executor
from py_gql.lang.parser import parse_value
from py_gql.schema import (
    EnumType, InputObjectType, InterfaceType, ListType, NonNullType, ObjectType, ScalarType, UnionType, Argument, Field, ID, Int, String, Schema, EnumValue, InputField,
)
from py_gql.schema.introspection import _format_default_value
from py_gql.utilities import introspection_query, value_from_ast
from harness import sdlgen as S
from harness.c12 import code_schema
from oracles import ref_lexer as RL


def type_ref(t):
    if isinstance(t, NonNullType):
        return {"kind": "NON_NULL", "name": None, "ofType": type_ref(t.type)}
    if isinstance(t, ListType):
        return {"kind": "LIST", "name": None, "ofType": type_ref(t.type)}
    return {"kind": kind_of(t), "name": t.name, "ofType": None}


def kind_of(t):
    for cls, k in ((ScalarType, "SCALAR"), (ObjectType, "OBJECT"), (InterfaceType, "INTERFACE"), (UnionType, "UNION"), (EnumType, "ENUM"), (InputObjectType, "INPUT_OBJECT")):
        if isinstance(t, cls):
            return k
    raise TypeError(t)


def norm_ref(r):
    """introspection result type ref with absent deeper ofType levels normalised"""
    if r is None:
        return None
    return {"kind": r["kind"], "name": r.get("name"), "ofType": norm_ref(r.get("ofType"))}


def expected_types(schema, include_deprecated=True):
    """introspection content from the schema objects, spec section 4.5 (written from the spec, not from the library's meta-types)"""
    out = {}
    for name, t in schema.types.items():
        k = kind_of(t)
        e = {"kind": k, "name": name, "description": t.description, "fields": None, "inputFields": None, "interfaces": None, "enumValues": None, "possibleTypes": None}
        if k in ("OBJECT", "INTERFACE"):
            e["fields"] = [{"name": f.name, "description": f.description, "type": type_ref(f.type), "isDeprecated": bool(f.deprecated),
                            "deprecationReason": f.deprecation_reason if f.deprecated else None,
                            "args": [{"name": a.name, "description": a.description, "type": type_ref(a.type), "has_default": a.has_default_value,
                                      "default": a.default_value if a.has_default_value else None, "atype": a.type} for a in f.arguments]}
                           for f in t.fields if include_deprecated or not f.deprecated]
        if k == "OBJECT":
            e["interfaces"] = sorted(i.name for i in t.interfaces)
        if k in ("INTERFACE", "UNION"):
            e["possibleTypes"] = sorted(p.name for p in schema.get_possible_types(t))
        if k == "ENUM":
            e["enumValues"] = [{"name": v.name, "description": v.description, "isDeprecated": bool(v.deprecated), "deprecationReason": v.deprecation_reason if v.deprecated else None}
                               for v in t.values if include_deprecated or not v.deprecated]
        if k == "INPUT_OBJECT":
            e["inputFields"] = [{"name": f.name, "description": f.description, "type": type_ref(f.type), "has_default": f.has_default_value,
                                 "default": f.default_value if f.has_default_value else None, "atype": f.type} for f in t.fields]
        out[name] = e
    return out


def check_default(got_text, exp):
    """a reported default value is GraphQL syntax that parses back to the declared default"""
    if not exp["has_default"]:
        return got_text is None
    if got_text is None:
        return False
    try:
        node = parse_value(got_text)
        back = value_from_ast(node, exp["atype"])
    except Exception:  # noqa
        return False
    return back == exp["default"]


def check_input_values(got, exp, where):
    if [g["name"] for g in got] != [e["name"] for e in exp]:
        return "%s: names %r vs %r" % (where, [g["name"] for g in got], [e["name"] for e in exp])
    for g, e in zip(got, exp):
        if g.get("description") != e["description"] or norm_ref(g["type"]) != e["type"]:
            return "%s.%s: description/type" % (where, e["name"])
        if not check_default(g["defaultValue"], e):
            if not known.c15_string_default(e):
                return "%s.%s: defaultValue %r does not parse back to %r" % (where, e["name"], g["defaultValue"], e["default"])
    return ""


def compare(schema, data):
    d = data["__schema"]
    for op, t in (("queryType", schema.query_type), ("mutationType", schema.mutation_type), ("subscriptionType", schema.subscription_type)):
        if (d[op] or {}).get("name") != (t.name if t else None):
            return "root %s" % op
    exp = expected_types(schema)
    got = {t["name"]: t for t in d["types"]}
    if sorted(got) != sorted(exp) or len(got) != len(d["types"]):
        return "type names: %r" % (sorted(set(got) ^ set(exp)),)
    for name, e in exp.items():
        g = got[name]
        if g["kind"] != e["kind"] or g.get("description") != e["description"]:
            return "%s: kind/description" % name
        for key in ("fields", "inputFields", "enumValues", "interfaces", "possibleTypes"):
            if (g[key] is None) != (e[key] is None):
                return "%s.%s: null-ness (%r vs %r)" % (name, key, g[key], e[key])
        if e["fields"] is not None:
            if [f["name"] for f in g["fields"]] != [f["name"] for f in e["fields"]]:
                return "%s: field names" % name
            for gf, ef in zip(g["fields"], e["fields"]):
                for k in ("description", "isDeprecated", "deprecationReason"):
                    if gf[k] != ef[k]:
                        return "%s.%s: %s %r vs %r" % (name, ef["name"], k, gf[k], ef[k])
                if norm_ref(gf["type"]) != ef["type"]:
                    return "%s.%s: type" % (name, ef["name"])
                p = check_input_values(gf["args"], ef["args"], "%s.%s" % (name, ef["name"]))
                if p:
                    return p
        if e["inputFields"] is not None:
            p = check_input_values(g["inputFields"], e["inputFields"], name)
            if p:
                return p
        if e["enumValues"] is not None and [{k: v[k] for k in ("name", "description", "isDeprecated", "deprecationReason")} for v in g["enumValues"]] != e["enumValues"]:
            return "%s: enum values" % name
        if e["interfaces"] is not None and sorted(i["name"] for i in g["interfaces"]) != e["interfaces"]:
            return "%s: interfaces" % name
        if e["possibleTypes"] is not None and sorted(i["name"] for i in g["possibleTypes"]) != e["possibleTypes"]:
            return "%s: possible types" % name
    gd = {x["name"]: x for x in d["directives"]}
    if sorted(gd) != sorted(schema.directives):
        return "directive names"
    for name, dd in schema.directives.items():
        g = gd[name]
        if g.get("description") != dd.description or list(g["locations"]) != list(dd.locations):
            return "@%s: description/locations" % name
        p = check_input_values(g["args"], [{"name": a.name, "description": a.description, "type": type_ref(a.type), "has_default": a.has_default_value,
                                            "default": a.default_value if a.has_default_value else None, "atype": a.type} for a in dd.arguments], "@" + name)
        if p:
            return p
    return ""


def subclass_schema():
    """every kind of type as an instance of a user / library SUBCLASS of the type classes (RegexType, UUID, user-defined subclasses)"""
    from py_gql.schema import RegexType, UUID, Boolean

    class MyObject(ObjectType):
        pass

    class MyInterface(InterfaceType):
        pass

    class MyUnion(UnionType):
        pass

    class MyEnum(EnumType):
        pass

    class MyInput(InputObjectType):
        pass

    class MyScalar(ScalarType):
        pass
    email = RegexType("Email", r"[^@]+@[^@]+", description="an email")
    stamp = MyScalar("Stamp", serialize=str, parse=str, description="a stamp")
    color = MyEnum("Shade", [EnumValue("DARK", 0, description="dark"), EnumValue("LIGHT", 1, deprecation_reason="too bright")])
    node = MyInterface("Thing", [Field("id", NonNullType(UUID), description="the id")], description="a thing")
    a = MyObject("Apple", [Field("id", NonNullType(UUID)), Field("mail", email, args=[Argument("shade", color, default_value=0)]),
                           Field("old", stamp, deprecation_reason="gone")], interfaces=[node], description="an apple")
    b = MyObject("Bean", [Field("id", NonNullType(UUID)), Field("ok", Boolean)], interfaces=[node])
    u = MyUnion("Fruit", [a, b], description="fruit")
    inp = MyInput("Basket", [InputField("n", NonNullType(Int)), InputField("shade", ListType(color), default_value=[1]), InputField("mail", email, default_value="a@b")])
    q = MyObject("Query", [Field("thing", node), Field("fruit", ListType(NonNullType(u)), args=[Argument("basket", inp, default_value={"n": 1, "shade": [1], "mail": "a@b"})])])
    return Schema(q, types=[a, b])


def make_schema(src, default, recursion, dep=1):
    if src == 2:
        return subclass_schema()
    if src == 1:
        return code_schema()
    # dep: 0 nothing deprecated, 1 some members, 2 every member of some types, 3 some members deprecated with the EMPTY reason
    text = len(S.TEXT_SUFFIXES) - 1 if dep == 3 else 0
    return build_schema(S.render(S.base_record(dict(desc=True, dep=(True if dep == 3 else dep), default=default, recursion=recursion, present=0x3F, text=text))))


def _introspect(src: int, default: int, recursion: int, cfg: int, dep: int = 1) -> bool:
    """
    pre: 0 <= src <= 2 and 0 <= default < len(S.DEFAULT_KINDS) and 0 <= recursion <= 3 and 0 <= cfg <= 1 and 0 <= dep <= 3
    pre: dep == 1 or default == 0 or thorough()
    pre: shard_of(default)
    post: _
    """
    SRC, D, R, C = concrete_int(src, 0, 2), concrete_int(default, 0, len(S.DEFAULT_KINDS) - 1), concrete_int(recursion, 0, 3), concrete_int(cfg, 0, 1)
    DEP = concrete_int(dep, 0, 3)
    if SRC >= 1 and (D or R or DEP != 1):
        return result(True, False)
    with untraced():
        schema = make_schema(SRC, D, R, DEP)
        if C == 0:
            res = graphql_blocking(schema, introspection_query())
        else:
            res = process_graphql_query(schema, introspection_query(), executor_cls=Executor)
        if res.errors:
            return result(False, True)
        problem = compare(schema, res.data)
    return result(problem == "", True)


INCLUDES = (("", None), ("(includeDeprecated: false)", None), ("(includeDeprecated: true)", None), ("(includeDeprecated: $inc)", False), ("(includeDeprecated: $inc)", True),
            ("(includeDeprecated: $inc)", "omitted"))


def _deprecated_filter(src: int, include: int, dep: int, via_type: bool) -> bool:
    """
    pre: 0 <= src <= 2 and 0 <= include < len(INCLUDES) and 0 <= dep <= 3
    pre: shard_of(dep)
    post: _
    """
    SRC, INC, DEP = concrete_int(src, 0, 2), concrete_int(include, 0, len(INCLUDES) - 1), concrete_int(dep, 0, 3)
    VT = True if via_type else False
    with untraced():
        schema = make_schema(SRC, 0, 0, DEP)
        arg, var = INCLUDES[INC]
        decl = "query ($inc: Boolean) " if var is not None else ""
        variables = {} if var in (None, "omitted") else {"inc": var}
        sel = "name kind fields%s { name isDeprecated deprecationReason } enumValues%s { name isDeprecated deprecationReason }" % (arg, arg)
        include_deprecated = (INC == 2) or var is True
        exp = expected_types(schema, include_deprecated=include_deprecated)
        if VT:
            got = []
            for name in exp:
                res = graphql_blocking(schema, decl + '{ __type(name: "%s") { %s } }' % (name, sel), variables=variables)
                if res.errors:
                    return result(False, True)
                got.append(res.data["__type"])
        else:
            res = graphql_blocking(schema, decl + "{ __schema { types { %s } } }" % sel, variables=variables)
            if res.errors:
                return result(False, True)
            got = res.data["__schema"]["types"]
        ok = sorted(t["name"] for t in got) == sorted(exp)
        for t in got:
            e = exp[t["name"]]
            # null for kinds that have no such members, a (possibly EMPTY) list otherwise
            for key in ("fields", "enumValues"):
                want = None if e[key] is None else [(m["name"], m["isDeprecated"], m["deprecationReason"]) for m in e[key]]
                have = None if t[key] is None else [(m["name"], m["isDeprecated"], m["deprecationReason"]) for m in t[key]]
                ok = ok and want == have
    return result(ok, True)


def underscore_fields(cfg):
    """ordinary fields named _x, _, x_, _Type: untouched by the switch, at the root and below; the meta-fields next to them are hidden"""
    with untraced():
        sub = ObjectType("_Sub", [Field("_id", Int), Field("_", Int), Field("id_", Int)])
        q = ObjectType("Query", [Field("_private", Int), Field("_", Int), Field("_sub", sub), Field("tail_", Int)])
        schema = Schema(q)
        root = {"_private": 1, "_": 2, "tail_": 3, "_sub": {"_id": 4, "_": 5, "id_": 6}}
        query = "{ _private _ tail_ __typename _sub { _id _ id_ __typename } }"
        kw = dict(root=root, executor_cls=Executor) if cfg == 0 else dict(root=root)
        on = process_graphql_query(schema, query, **kw).response()
        off = process_graphql_query(schema, query, disable_introspection=True, **kw).response()
        plain = {"_private": 1, "_": 2, "tail_": 3, "_sub": {"_id": 4, "_": 5, "id_": 6}}
        with_meta = {"_private": 1, "_": 2, "tail_": 3, "__typename": "Query", "_sub": {"_id": 4, "_": 5, "id_": 6, "__typename": "_Sub"}}
        return json.loads(json.dumps(on.get("data"))) == with_meta and json.loads(json.dumps(off.get("data"))) == plain and not on.get("errors") and not off.get("errors")


def _disabled(src: int, q: int, cfg: int = 0) -> bool:
    """
    pre: 0 <= src <= 1 and 0 <= q < 8 and 0 <= cfg <= 1
    post: _
    """
    SRC, Q, C = concrete_int(src, 0, 1), concrete_int(q, 0, 7), concrete_int(cfg, 0, 1)
    if Q == 7:
        return result(underscore_fields(C), True)
    with untraced():
        schema = make_schema(SRC, 0, 0)
        field = "c" if SRC == 1 else "s(x: [\"a\"])"
        query = ("{ __schema { types { name } } plain: %s }", "{ __type(name: \"Query\") { name } plain: %s }", "{ __typename plain: %s }", "{ plain: %s }",
                 "{ plain: %s ... on Query { __typename } }", "{ plain: %s ...F } fragment F on Query { __typename __schema { queryType { name } } }",
                 "{ plain: %s a { __typename id } }")[Q] % field
        if Q == 6 and SRC == 1:
            return result(True, False)          # the code-built schema has no object-typed field
        root = {"c": 1, "s": "ok", "plain": None, "a": {"id": "1"}}
        kw = dict(root=root, executor_cls=Executor) if C == 0 else dict(root=root)
        on = process_graphql_query(schema, query, **kw)
        off = process_graphql_query(schema, query, disable_introspection=True, **kw)
        d_on, d_off = on.response().get("data"), off.response().get("data")
        ok = d_on is not None and d_off is not None
        if ok:
            # ordinary fields unaffected; meta fields resolve to nothing when disabled - at any depth, directly or through fragments
            ok = d_on.get("plain") == d_off.get("plain") and d_on.get("plain") is not None
            for meta in ("__schema", "__type", "__typename"):
                if meta in d_on:
                    ok = ok and d_on[meta] is not None and d_off.get(meta) is None
            if Q in (4, 5):
                ok = ok and d_on.get("__typename") == "Query"
            if Q == 6:
                ok = ok and d_on["a"] == {"__typename": "A", "id": "1"} and d_off["a"] == {"id": "1"}
    return result(ok, True)


FMT_N = 3 if thorough() else 2


def _format_default_kernel(s: str) -> bool:
    """
    pre: len(s) <= FMT_N
    pre: not known.c15_string_default_text(s)
    post: _
    """
    out = _format_default_value(Argument("x", String, default_value=s))
    try:
        toks = RL.tokens(out)
    except (RL.RefSyntaxError, RL.DontCare):
        return result(False, True)
    ok = len(toks) == 1 and toks[0][0] == "String" and toks[0][3] == s
    return result(ok, len(s) > 0)


# ---- several schemas built from the SAME Python type objects: each reports its own content, whatever was asked of the others before
def shared_world():
    node = InterfaceType("Node", [Field("id", ID)], description="a node")
    user = ObjectType("User", [Field("id", ID), Field("name", String)], interfaces=[node])
    audit = ObjectType("AuditLog", [Field("id", ID), Field("at", Int)], interfaces=[node])
    robot = ObjectType("Robot", [Field("id", ID)], interfaces=[node])
    thing = UnionType("Thing", [user, robot])
    q = ObjectType("Query", [Field("node", node), Field("me", user), Field("thing", thing)])
    # the same interface object: implemented by {User, Robot} in the first schema, by {User, Robot, AuditLog} in the second, and by the same three in another order in the third
    return (Schema(q), Schema(q, types=[audit]), Schema(q, types=[audit, robot]))


def _shared_types(first: int, second: int, third: int, cfg: int) -> bool:
    """
    pre: 0 <= first <= 2 and 0 <= second <= 2 and -1 <= third <= 2 and 0 <= cfg <= 1
    post: _
    """
    order = [concrete_int(first, 0, 2), concrete_int(second, 0, 2)] + ([concrete_int(third, 0, 2)] if third >= 0 else [])
    C = concrete_int(cfg, 0, 1)
    with untraced():
        schemas = shared_world()
        problem = ""
        for i in order:
            schema = schemas[i]
            res = graphql_blocking(schema, introspection_query()) if C == 0 else process_graphql_query(schema, introspection_query(), executor_cls=Executor)
            if res.errors:
                problem = "errors %r" % (res.errors,)
                break
            problem = compare(schema, res.data)
            if problem:
                problem = "schema %d asked after %r: %s" % (i, order[: order.index(i)], problem)
                break
    return result(problem == "", len(set(order)) >= 2)

# ---- type references wrapped as deeply as the standard introspection query can report (7 wrappers around the named type)
WRAP_EXPRS = ("Int", "Int!", "[Int]", "[Int!]!", "[[Int]]", "[[Int!]!]!", "[[[Int]]]", "[[[Int!]]!]", "[[[Int!]!]!]", "[[[Int!]!]!]!", "[[[[Int]]]]", "[[[[Int!]]]]", "[[[[[[[Int]]]]]]]")


def type_text(ref):
    if ref["kind"] == "NON_NULL":
        return type_text(ref["ofType"]) + "!" if ref.get("ofType") else "<TRUNCATED>!"
    if ref["kind"] == "LIST":
        return "[" + (type_text(ref["ofType"]) if ref.get("ofType") else "<TRUNCATED>") + "]"
    return ref["name"]


def _deep_wrappers(w: int, where: int, cfg: int) -> bool:
    """
    pre: 0 <= w < len(WRAP_EXPRS) and 0 <= where <= 3 and 0 <= cfg <= 1
    post: _
    """
    W, WH, C = pick(w, WRAP_EXPRS), concrete_int(where, 0, 3), concrete_int(cfg, 0, 1)
    with untraced():
        depth = W.count("[") + W.count("!")
        sdl = ("type Query { f: %s }", "type Query { f(a: %s): Int }", "input In { g: %s } type Query { f(i: In): Int }", "directive @d(a: %s) on FIELD type Query { f: Int }")[WH] % W
        schema = build_schema(sdl)
        res = graphql_blocking(schema, introspection_query()) if C == 0 else process_graphql_query(schema, introspection_query(), executor_cls=Executor)
        if res.errors:
            return result(False, True)
        d = res.data["__schema"]
        types = {t["name"]: t for t in d["types"]}
        if WH == 0:
            ref = [f for f in types["Query"]["fields"] if f["name"] == "f"][0]["type"]
        elif WH == 1:
            ref = [f for f in types["Query"]["fields"] if f["name"] == "f"][0]["args"][0]["type"]
        elif WH == 2:
            ref = types["In"]["inputFields"][0]["type"]
        else:
            ref = [x for x in d["directives"] if x["name"] == "d"][0]["args"][0]["type"]
        # the standard query (spec appendix, graphql-js) nests ofType 7 levels below `type`: every reference with <= 7 wrappers is reported down to its name
        ok = type_text(ref) == W if depth <= 7 else True
    return result(ok, depth >= 5)


# ---- every directive location the SDL parser accepts is reported by introspection
def all_locations():
    from py_gql.lang import parser as P
    return tuple(P.RUNTIME_DIRECTIVE_LOCATIONS) + tuple(P.SCHEMA_DIRECTIVE_LOCATONS)


def _directive_locations(loc: int, second: int, cfg: int) -> bool:
    """
    pre: 0 <= loc < 19 and -1 <= second < 19 and second != loc and 0 <= cfg <= 1
    pre: shard_of(loc)
    post: _
    """
    L, S2, C = concrete_int(loc, 0, 18), concrete_int(second, -1, 18), concrete_int(cfg, 0, 1)
    with untraced():
        names = all_locations()
        if L >= len(names) or S2 >= len(names):
            return result(True, False)
        locs = [names[L]] + ([names[S2]] if S2 >= 0 else [])
        if known.c15_variable_definition_location(locs):
            return result(True, False)
        schema = build_schema("directive @v(a: Int) on %s type Query { a: Int }" % " | ".join(locs))
        res = graphql_blocking(schema, introspection_query()) if C == 0 else process_graphql_query(schema, introspection_query(), executor_cls=Executor)   # an exception propagates
        if res.errors:
            return result(False, True)
        d = [x for x in res.data["__schema"]["directives"] if x["name"] == "v"]
        ok = len(d) == 1 and sorted(d[0]["locations"]) == sorted(locs)
        enum = [t for t in res.data["__schema"]["types"] if t["name"] == "__DirectiveLocation"][0]
        ok = ok and all(x in [v["name"] for v in enum["enumValues"]] for x in locs)
    return result(ok, True)



CONDITIONS = [
    Cond(name="directive_locations", fn=_directive_locations, quick=120, thorough=120, shards_quick=10, shards_thorough=10,
         bound="a directive declared on every location the SDL parser accepts (read from the live parser tables), alone and paired with every other location, x 2 executors: the standard introspection query "
               "answers (no exception) and reports exactly the declared locations, each of which is a value of __DirectiveLocation",
         symbolic={"loc,second,cfg": "choice"}, assumptions=["known finding C15-variable-definition-location excluded"], witness={"loc": 3, "second": 0, "cfg": 0}),
    Cond(name="deep_wrappers", fn=_deep_wrappers, quick=60, thorough=60,
         bound="13 type expressions with 0..7 wrappers (the deepest the standard introspection query reports: 7 ofType levels) at 4 positions (field type, argument, input field, directive argument) x 2 "
               "executors: the reference read back from introspection_query() spells exactly the declared type, down to the named type",
         symbolic={"w,where,cfg": "choice"}, witness={"w": 9, "where": 0, "cfg": 0}),
    Cond(name="shared_types", fn=_shared_types, quick=60, thorough=60,
         bound="three schemas built from the SAME type objects (one interface implemented by two / three object types, a union, one extra implementation only known to some schemas) introspected in every order of 2..3 requests, 2 executors: "
               "each answer equals the reference computed from THAT schema (possible types, interfaces, type list)",
         symbolic={"first,second,third": "choice: which schema is asked", "cfg": "choice: executor"}, witness={"first": 0, "second": 1, "third": -1, "cfg": 0}),
    Cond(
        name="introspect", fn=_introspect, quick=100, thorough=300, per_path=60, shards_quick=12, shards_thorough=12,
        bound="generator schemas (13 default kinds x 4 recursion patterns x deprecation pattern none / some / every member of a type, descriptions on) and two code-built schemas (enum internal values, defaults of every input kind; every type an instance of a SUBCLASS of the type classes: RegexType, UUID, user subclasses) x 2 executors: "
              "the standard introspection query equals a reference computed from the schema objects; every defaultValue parses back (parse_value + value_from_ast) to the declared default",
        symbolic={"src,default,recursion,cfg": "choice"}, witness={"src": 0, "default": 1, "recursion": 0, "cfg": 0, "dep": 1},
        assumptions=["oracle: introspection content per spec 4.5 computed from public schema attributes (expected_types)"],
    ),
    Cond(name="deprecated_filter", fn=_deprecated_filter, quick=60, thorough=60, shards_quick=4, shards_thorough=4, bound="includeDeprecated absent / false / true / through a variable (false, true, omitted) on fields and enumValues x deprecation pattern (none, some, EVERY member of an object type, an interface and an enum, some members with the EMPTY reason) "
               "x via __schema.types or __type(name:) for every type, 2 schemas: member lists (name, isDeprecated, deprecationReason) equal the reference, null only for kinds without such members",
         symbolic={"src,include,dep,via_type": "choice"}, witness={"src": 0, "include": 1, "dep": 2, "via_type": False}),
    Cond(name="disabled", fn=_disabled, quick=60, thorough=60, bound="disable_introspection on/off x 8 queries (ordinary fields whose names start or end with an underscore, __schema, __type, __typename at the root, none, __typename through an inline fragment, meta-fields through a named fragment, "
               "__typename on a nested object) x 2 schemas x 2 executors: meta-fields hidden at every depth, ordinary fields unaffected",
         symbolic={"src,q,cfg": "choice"}, witness={"src": 0, "q": 6, "cfg": 0}),
    Cond(
        name="format_default_kernel", fn=_format_default_kernel, quick=100, thorough=600, per_path=30,
        bound="_format_default_value on every String default of <= 2 (thorough 3) symbolic characters: one string token whose value is the default",
        symbolic={"s": "data: default string"}, witness={"s": "ab"},
    ),
]
