"""One fixed schema (8 composite types + enum with internal values + custom scalar + input object), as a plain-dict
model for the reference executor and as a real py_gql schema built from the same model; a data world; operation
templates.  Shared by C04 / C05 / C06 / C10."""
from py_gql.exc import ResolverError
from py_gql.schema import (
    Argument, Boolean, EnumType, EnumValue, Field, Float, ID, InputField, InputObjectType, Int, InterfaceType, ListType,
    NonNullType, ObjectType, ScalarType, Schema, String, UnionType,
)

MODEL = {
    "Query": {"kind": "object", "interfaces": [], "fields": {
        "me": {"type": "User"},
        "node": {"type": "Node", "args": {"kind": {"type": "Int", "default": 0}}},
        "pets": {"type": "[Pet]"},
        "animals": {"type": "[Animal]"},
        "users": {"type": "[User!]"},
        "n": {"type": "Int!"},
        "echo": {"type": "Int", "args": {"x": {"type": "Int", "default": 7}, "r": {"type": "Role"}}},
        "search": {"type": "Int", "args": {"ids": {"type": "[Int]"}, "f": {"type": "Filter"}, "s": {"type": "String"}}},
        "when": {"type": "Date"},
        "req": {"type": "Int", "args": {"n": {"type": "Int!"}, "m": {"type": "Int!", "default": 3}, "l": {"type": "[Int!]!"}}},
        "matrix": {"type": "[[Int!]]"}, "grid": {"type": "[[User]!]"}, "roles": {"type": "[Role!]"}, "dates": {"type": "[Date]"},
    }},
    "Mutation": {"kind": "object", "interfaces": [], "fields": {"bump": {"type": "Int", "args": {"by": {"type": "Int!"}}}, "me": {"type": "User"}}},
    "Node": {"kind": "interface", "fields": {"id": {"type": "ID"}, "name": {"type": "String"}}},
    "User": {"kind": "object", "interfaces": ["Node"], "fields": {
        "id": {"type": "ID"}, "name": {"type": "String"}, "age": {"type": "Int!"}, "friends": {"type": "[User]"}, "best": {"type": "User"},
        "role": {"type": "Role"}, "pet": {"type": "Pet"}, "tags": {"type": "[String!]"},
        "score": {"type": "Int", "args": {"scale": {"type": "Int", "default": 1}}},
        "scaled": {"type": "Int", "args": {"by": {"type": "Int!"}}},
    }},
    "Animal": {"kind": "interface", "fields": {"name": {"type": "String"}, "owner": {"type": "User"},
                                                "sound": {"type": "Int", "args": {"times": {"type": "Int", "default": 1}, "loud": {"type": "Boolean"}}}}},
    "Dog": {"kind": "object", "interfaces": ["Node", "Animal"], "fields": {"id": {"type": "ID"}, "name": {"type": "String"}, "barks": {"type": "Boolean"}, "owner": {"type": "User"},
                                                                                  "sound": {"type": "Int", "args": {"times": {"type": "Int", "default": 2}, "loud": {"type": "Boolean", "default": True}}}}},
    "Cat": {"kind": "object", "interfaces": ["Animal"], "fields": {"name": {"type": "String"}, "lives": {"type": "Int"}, "owner": {"type": "User"},
                                                               "sound": {"type": "Int", "args": {"times": {"type": "Int", "default": 3}, "loud": {"type": "Boolean"}, "extra": {"type": "Int", "default": 100}}}}},
    "Pet": {"kind": "union", "members": ["Dog", "Cat"]},
    "Role": {"kind": "enum", "values": {"ADMIN": 1, "USER": "u"}},
    "Date": {"kind": "scalar", "serialize": lambda v: "D:%s" % (v,)},
    "Filter": {"kind": "input", "fields": {"a": {"type": "Int"}, "b": {"type": "[Int]"}, "c": {"type": "Int", "default": 3}, "sub": {"type": "Filter"}, "subs": {"type": "[Filter]"}}},
}

FNS = {
    ("Query", "echo"): lambda root, args: args.get("x") if args.get("r") is None else (100 if args["r"] == 1 else 200),
    ("Query", "search"): lambda root, args: len(args.get("ids") or []) + ((args.get("f") or {}).get("c") or 0) + len(args.get("s") or ""),
    ("Query", "node"): lambda root, args: (root["me"] if not args.get("kind") else (root["pets"] or [None])[0]),
    ("User", "score"): lambda root, args: None if args.get("scale") is None else root["base_score"] * args["scale"],
    ("Mutation", "bump"): lambda root, args: args["by"] + 1,
    ("User", "scaled"): lambda root, args: root["base_score"] * args["by"],
    ("Query", "req"): lambda root, args: args["n"] + args["m"] + len(args["l"]),
    ("Dog", "sound"): lambda root, args: (args.get("times") or 0) * 10 + (1 if args.get("loud") else 0) + args.get("extra", 0),
    ("Cat", "sound"): lambda root, args: (args.get("times") or 0) * 10 + (1 if args.get("loud") else 0) + args.get("extra", 0),
}


def make_data(null_at=None, list_null=False):
    rex = {"__typename__": "Dog", "id": "d1", "name": "Rex", "barks": True}
    tom = {"__typename__": "Cat", "name": "Tom", "lives": 9}
    bob = {"__typename__": "User", "id": "u2", "name": "Bob", "age": 40, "friends": [], "best": None, "role": "u", "pet": tom, "tags": [], "base_score": 2}
    ann = {"__typename__": "User", "id": "u1", "name": "Ann", "age": 30, "friends": [bob, None] if list_null else [bob], "best": bob, "role": 1,
           "pet": rex, "tags": ["a", "b"], "base_score": 5}
    rex["owner"], tom["owner"] = ann, bob
    root = {"me": ann, "pets": [rex, tom], "animals": [tom, rex] if null_at == "animals.reversed" else [rex, tom], "users": [ann, bob], "n": 4, "when": "2020",
            "matrix": [[1, 2], [], None, [3]], "grid": [[ann, None], [], [bob, ann]], "roles": [1, "u"], "dates": ["a", None]}
    if null_at == "me.name":
        ann["name"] = None
    elif null_at == "me.age":
        ann["age"] = None
    elif null_at == "n":
        root["n"] = None
    elif null_at == "me.best":
        ann["best"] = None
    elif null_at == "me":
        root["me"] = None
    elif null_at == "users.item":
        root["users"] = [ann, None]
    elif null_at == "users.items":
        root["users"] = [None, ann, None, bob]       # (appended) null entries that are NOT the last entry of a [User!] list, more than one
    elif null_at == "tags.item":
        ann["tags"] = ["a", None]
    elif null_at == "pets":
        root["pets"] = None
    return root


NULLS = (None, "me.name", "me.age", "n", "me.best", "me", "users.item", "tags.item", "pets", "users.items")
FAILS = ((), (("User", "name"),), (("User", "age"),), (("Query", "me"),), (("Dog", "barks"),), (("Query", "n"),), (("User", "friends"),),
         (("User", "name"), ("Query", "n")), (("Query", "echo"),), (("User", "score"),))

_BASE = {"Int": Int, "String": String, "Boolean": Boolean, "ID": ID, "Float": Float}


def build_real_schema(fail=(), directives=None, shared_error=False):
    """shared_error: every failing resolver raises the SAME ResolverError instance (a module-level constant in user code)"""
    the_error = ResolverError("resolver failed")
    """the same schema as py_gql objects; resolvers: default (mapping lookup) except FNS and failing fields"""
    fail = set(fail)
    types = {}

    def ref(expr):
        def thunk():
            e = expr.strip()
            if e.endswith("!"):
                return NonNullType(ref(e[:-1])())
            if e.startswith("["):
                return ListType(ref(e[1:-1])())
            return _BASE.get(e) or types[e]
        return thunk

    def resolver_for(tname, fname):
        if (tname, fname) in fail:
            def failing(root, ctx, info, **args):
                raise the_error if shared_error else ResolverError("resolver failed")
            return failing
        fn = FNS.get((tname, fname))
        if fn is not None:
            return lambda root, ctx, info, **args: fn(root, args)
        return None

    def fields_of(tname, t):
        out = []
        for fname, f in t["fields"].items():
            args = [Argument(an, ref(a["type"])(), **({"default_value": a["default"]} if "default" in a else {})) for an, a in f.get("args", {}).items()]
            out.append(Field(fname, ref(f["type"]), args=args, resolver=resolver_for(tname, fname)))
        return out

    for name, t in MODEL.items():
        k = t["kind"]
        if k == "enum":
            types[name] = EnumType(name, [EnumValue(n, v) for n, v in t["values"].items()])
        elif k == "scalar":
            types[name] = ScalarType(name, serialize=t["serialize"], parse=lambda v: v)
        elif k == "input":
            types[name] = InputObjectType(name, (lambda tt=t: [
                InputField(fn, ref(f["type"])(), **({"default_value": f["default"]} if "default" in f else {})) for fn, f in tt["fields"].items()]))
    for name, t in MODEL.items():
        if t["kind"] == "interface":
            types[name] = InterfaceType(name, (lambda n=name, tt=t: fields_of(n, tt)))
    for name, t in MODEL.items():
        if t["kind"] == "object":
            types[name] = ObjectType(name, (lambda n=name, tt=t: fields_of(n, tt)), interfaces=[types[i] for i in t["interfaces"]])
    for name, t in MODEL.items():
        if t["kind"] == "union":
            types[name] = UnionType(name, [types[m] for m in t["members"]])
    return Schema(types["Query"], mutation_type=types["Mutation"], types=list(types.values()), directives=directives)


# (document, variables) - every one valid against the schema
TEMPLATES = (
    ("{ me { id name age } n }", {}),
    ("{ b: me { n2: name name } a: n n }", {}),
    ("{ me { name friends { name friends { name } } best { name age } } }", {}),
    ("{ me { name } me { age } me { name best { id } } }", {}),
    ("query ($s: Boolean!, $i: Boolean!) { me { name @skip(if: $s) age @include(if: $i) id } n @skip(if: $s) }", {"s": True, "i": False}),
    ("query ($s: Boolean!, $i: Boolean!) { me { ...F @skip(if: $s) ... on User @include(if: $i) { age } } } fragment F on User { name id }", {"s": False, "i": True}),
    ("{ pets { __typename ... on Dog { name barks } ... on Cat { name lives } } }", {}),
    ("{ pets { ... on Node { id name } ... on Cat { lives } } }", {}),
    ("{ node { id ... on User { age } ... on Dog { barks } } other: node(kind: 1) { __typename name ...N } } fragment N on Node { id }", {}),
    ("{ me { pet { ... on Dog { barks name } ... on Cat { lives } } role tags } users { role name } }", {}),
    ("query ($x: Int, $r: Role) { echo a: echo(x: 3) b: echo(x: $x) c: echo(r: ADMIN) d: echo(r: $r) }", {"x": 9, "r": "USER"}),
    ("query ($x: Int = 4) { echo(x: $x) me { score s2: score(scale: $x) } }", {}),
    ("{ search(ids: [1, 2], f: {a: 1, b: [2]}, s: \"ab\") z: search(ids: 5) y: search(f: {c: 10}) }", {}),
    ("query ($f: Filter, $ids: [Int]) { search(f: $f, ids: $ids) }", {"f": {"a": 1}, "ids": [1, 2, 3]}),
    ("{ when me { ...A ...B } } fragment A on User { name ...B } fragment B on Node { id }", {}),
    ("{ users { name friends { name } tags } }", {}),
    ("{ me { friends { best { name } name } } n }", {}),
    ("mutation { bump(by: 2) me { name } second: bump(by: 5) }", {}),
    ("query A { n } query B { me { name } }", {}),
    ("{ __typename me { __typename pet { __typename } } }", {}),
    # execution-time argument coercion failure (null for a non-null argument through a nullable variable with a default) on a field node that is
    # resolved several times: list items, two parents of one fragment
    ("query ($n: Int = 2) { users { name scaled(by: $n) } me { best { scaled(by: $n) } ...S friends { ...S } } } fragment S on User { s2: scaled(by: $n) }", {"n": None}),
    # nested lists (of scalars with an empty and a null inner list, of objects with a null item), lists of enums and of a custom scalar
    ("{ matrix grid { name best { name } } roles dates }", {}),
    ("{ grid { ...G } m2: matrix } fragment G on User { id friends { name } }", {}),
    # ONE field node executed under several runtime object types whose definitions of the field differ in argument defaults / extra arguments
    ("{ animals { name sound } pets { ... on Animal { s2: sound(loud: false) } } }", {}),
    ("query ($t: Int) { animals { sound(times: $t) ...A } } fragment A on Animal { owner { pet { ... on Animal { sound } } } }", {}),
)
OPNAMES = {18: "B"}
