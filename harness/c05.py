"""C05 - validated operations cannot go wrong; validation itself never crashes."""
import json

from vf import known  # noqa: F401
from vf.spec import Cond, result, untraced, retraced, shard_of, thorough, concrete_int, pick  # noqa: F401

from py_gql import graphql_blocking
from py_gql.exc import GraphQLSyntaxError
from py_gql.lang import parse
from py_gql.validation import validate_ast
from harness import gqlworld as G
from harness.c04 import real_run, ref_run, REQUEST_ERROR
from oracles import ref_lexer as RL

# hand-written adversarial documents (syntactically valid; validity against the schema varies)
ADVERSARIAL = (
    "{ search(ids: [1]) search(ids: [1]) }",
    "{ search(ids: [1]) search(ids: [2]) }",
    "{ search(f: {a: 1}) search(f: {a: 1}) }",
    "{ search(f: {a: 1}) search(f: {a: 2}) }",
    "{ echo(x: null) echo(x: null) }",
    "{ echo(x: null) echo(x: 1) }",
    "query ($v: Int) { echo(x: $v) echo(x: $v) }",
    "query ($v: Int, $w: Int) { echo(x: $v) echo(x: $w) }",
    "query ($v: Int) { echo(x: $v) search(ids: $v) me { score(scale: $v) } }",
    "query ($v: Int) { echo(x: $v) search(s: $v) }",
    "query ($v: [Int]) { search(ids: $v) echo(x: $v) }",
    "{ me { ...Alpha } } fragment Alpha on User { name ...Beta } fragment Beta on User { name: id ...Gamma } fragment Gamma on User { age }",
    "{ me { ...Alpha ...Beta } } fragment Alpha on User { x: name } fragment Beta on User { x: age }",
    "{ me { ...Aa } } fragment Aa on User { best { ...Bb } } fragment Bb on User { best { ...Aa } }",
    "{ me { ...Missing } }",
    "{ me { ... on Nope { name } } }",
    "{ nope { x } me { nope } }",
    "{ me @nope { name @skip } }",
    "query ($u: Nope, $v: User) { me { name } }",
    "{ me { name { x } } n { y } me }",
    "{ pets { name } }",
    "{ pets { ... on User { name } } }",
    "query Q { n } query Q { n }",
    "{ n } { n }",
    "query ($a: Int, $a: Int) { echo(x: $a) }",
    "{ echo(x: 1, x: 2) search(f: {a: 1, a: 2}) }",
    "{ echo(x: \"s\", r: 1) search(ids: {a: 1}, f: [1], s: E) }",
    "{ search(f: {nope: 1, b: [[1]]}) }",
    "subscription { n }",
    "mutation { bump }",
    "fragment Unused on User { name } { n }",
    "query ($unused: Int) { n }",
    "{ me { a: name a: age } }",
    "{ pets { ... on Dog { x: name } ... on Cat { x: lives } } }",
    "{ pets { ... on Dog { x: name } ... on Cat { x: name } } }",
    "{ me { friends { name } friends { age } } users { a: name } users { a: age } }",
    "query ($s: Boolean) { me @skip(if: $s) { name } n @include(if: 1) }",
    "{ me { pet { ...P } } } fragment P on Pet { ... on Dog { barks } ...P2 } fragment P2 on Cat { lives }",
    "{ when(x: 1) { y } }",
    "{ __schema { types { name } } __type(name: \"User\") { fields { name } } }",
)

NAMES = ("me", "name", "age", "n", "echo", "x", "User", "Dog", "Node", "Pet", "F", "s", "i", "ids", "f", "a", "Int", "Boolean", "Filter", "on", "nope",
         "friends", "pets", "node", "id", "r", "ADMIN", "null", "true")
ALPHABET = [("Name", n) for n in NAMES] + [("Punct", p) for p in ("{", "}", "(", ")", "[", "]", ":", "$", "!", "...", "@", "=")] + \
    [("Int", "1"), ("String", "s"), ("Float", "1.5")]


def tokens_of(text):
    return [(k, v) for (k, a, b, v) in RL.tokens(text)]


def render(tokens):
    out = []
    for k, v in tokens:
        out.append(json.dumps(v) if k in ("String", "BlockString") else v)
    return " ".join(out)


# layout kept append-only (recorded witnesses index into it): the first 20 templates, the adversarial documents, then templates added later
ADVERSARIAL2 = (
    "{ me { ...F } } fragment F on User { best { ...F best { ...F } } }",                         # a fragment spreading itself at two depths (a cycle: must be REPORTED, never crash)
    "{ me { ...F } } fragment F on User { best { ...G } } fragment G on User { friends { ...F best { ...G } } }",
)
SOURCES = tuple(t for t, _ in G.TEMPLATES[:20]) + ADVERSARIAL + tuple(t for t, _ in G.TEMPLATES[20:25]) + ADVERSARIAL2 + tuple(t for t, _ in G.TEMPLATES[25:])
GIVEN = {SOURCES.index(t): v for t, v in G.TEMPLATES}
VALID_TEMPLATE = frozenset(GIVEN)
_TOKENS = [tokens_of(s) for s in SOURCES]
MAXLEN = max(len(t) for t in _TOKENS)
NS = len(SOURCES)


def natural_variables(doc, given):
    """a value of the natural JSON kind for every declared variable that the template does not already supply"""
    out = dict(given)
    for d in doc.definitions:
        for vd in getattr(d, "variable_definitions", None) or []:
            n = vd.variable.name.value
            if n in out:
                continue
            t = vd.type
            nn = type(t).__name__ == "NonNullType"
            while type(t).__name__ == "NonNullType":
                t = t.type
            if type(t).__name__ == "ListType":
                out[n] = []
            else:
                base = t.name.value
                v = {"Int": 1, "String": "s", "Boolean": True, "ID": "i", "Float": 1.5, "Role": "ADMIN", "Filter": {"a": 1}}.get(base)
                if v is not None or nn:
                    out[n] = v
    return out


def check_document(text, given_vars, fail=()):
    """-> (ok, reached): validation total; if it reports nothing, execution cannot go wrong and equals the reference"""
    try:
        doc = parse(text)
    except GraphQLSyntaxError:
        return True, False
    schema = G.build_real_schema(fail)
    verdict = validate_ast(schema, doc)          # any exception propagates = violation
    errors = verdict.errors
    if not isinstance(errors, list):
        return False, True
    if errors:
        return True, True
    ops = [d for d in doc.definitions if type(d).__name__ == "OperationDefinition"]
    opname = ops[-1].name.value if len(ops) > 1 and ops[-1].name else None
    variables = natural_variables(doc, given_vars)
    got_data, got_errs, msgs = real_run(schema, text, variables, G.make_data(), opname)      # any exception propagates
    if any("Variable" in m and "invalid value" in m for m in msgs) and got_data == REQUEST_ERROR:
        return True, True                     # variables rejected: allowed (only accepted assignments are quantified over)
    op = [o for o in ops if opname is None or (o.name and o.name.value == opname)][0]
    if {"query": "Query", "mutation": "Mutation", "subscription": "Subscription"}[op.operation] not in G.MODEL:
        return (got_data in (None, "<no data>", REQUEST_ERROR) and len(msgs) > 0), True      # operation type the schema does not define: an error result
    if "__schema" in text or "__type" in text.replace("__typename", ""):
        return isinstance(got_data, dict), True   # introspection meta-fields are C15's subject; here: no exception, a data object
    exp_data, exp_errs = ref_run(text, variables, G.make_data(), opname, fail)
    return (json.dumps(got_data) == json.dumps(exp_data) and got_errs == exp_errs), True


def _sound_edit(src: int, kind: int, pos: int, code: int) -> bool:
    """
    pre: 0 <= src < NS and 0 <= kind <= 2 and 0 <= pos <= MAXLEN and 0 <= code < len(ALPHABET)
    pre: thorough() or kind <= 1
    pre: shard_of(src)
    post: _
    """
    S = concrete_int(src, 0, NS - 1)
    toks = _TOKENS[S]
    K = concrete_int(kind, 0, 2)
    limit = len(toks) if K == 2 else len(toks) - 1
    if pos > limit:
        return result(True, False)
    P = concrete_int(pos, 0, limit)
    if K == 1:
        if code != 0:
            return result(True, False)
        new = toks[:P] + toks[P + 1:]
    else:
        t = pick(code, ALPHABET)
        new = toks[:P] + [t] + (toks[P:] if K == 2 else toks[P + 1:])
    with untraced():
        given = GIVEN.get(S, {})
        ok, reached = check_document(render(new), given)
    return result(ok, reached)


def _sound_source(src: int, fail: int) -> bool:
    """
    pre: 0 <= src < NS and 0 <= fail < len(G.FAILS)
    post: _
    """
    S = concrete_int(src, 0, NS - 1)
    F = pick(fail, G.FAILS)
    with untraced():
        given = GIVEN.get(S, {})
        ok, reached = check_document(SOURCES[S], given, F)
    return result(ok, reached)


# ---- field merging: three same-key fields, conflicts possibly only between the later two (spec 5.3.2 FieldsInSetCanMerge)
SUBSEL = ("name", "x: name", "x: age", "x: best { name }", "x: best { age }", "x: score(scale: 1)", "x: score(scale: 2)", "x: score", "id")
_SUBKEY = {"name": None, "id": None, "x: name": ("name", ""), "x: age": ("age", ""), "x: best { name }": ("best", ""), "x: best { age }": ("best", ""),
           "x: score(scale: 1)": ("score", "1"), "x: score(scale: 2)": ("score", "2"), "x: score": ("score", "")}


def _merge_triples(a: int, b: int, c: int, nested: bool) -> bool:
    """
    pre: 0 <= a < len(SUBSEL) and 0 <= b < len(SUBSEL) and 0 <= c < len(SUBSEL)
    pre: shard_of(a)
    post: _
    """
    A, B, C = pick(a, SUBSEL), pick(b, SUBSEL), pick(c, SUBSEL)
    NE = True if nested else False
    with untraced():
        if NE:
            text = "{ me { %s } me { %s } me { %s } }" % (A, B, C)
        else:
            text = "{ me { %s %s %s } }" % (A, B, C)
        keys = {_SUBKEY[x] for x in (A, B, C) if _SUBKEY[x] is not None}
        conflict = len(keys) > 1
        doc = parse(text)
        schema = G.build_real_schema()
        errors = validate_ast(schema, doc).errors
        ok = bool(errors) == conflict
        if ok and not conflict:
            ok, _ = check_document(text, {})
    return result(ok, conflict)


# ---- one fragment (one field node) reused in two places of ONE operation, merged with a same-key sibling in only one of them
REUSE_SUB = ("name", "id", "age", "best { name }", "n2: name", "friends { name }")
REUSE_PLACES = ("me { %s }", "users { %s }", "me { best { %s } }", "me { friends { %s } }", "node { ... on User { %s } }")


def _fragment_reuse(s1: int, s2: int, p1: int, p2: int, sibling_first: bool, swap: bool, inline: bool) -> bool:
    """
    pre: 0 <= s1 < len(REUSE_SUB) and 0 <= s2 < len(REUSE_SUB) and 0 <= p1 < len(REUSE_PLACES) and 0 <= p2 < len(REUSE_PLACES) and p1 != p2
    pre: shard_of(s1 * 6 + s2)
    post: _
    """
    S1, S2, P1, P2 = pick(s1, REUSE_SUB), pick(s2, REUSE_SUB), pick(p1, REUSE_PLACES), pick(p2, REUSE_PLACES)
    SF, SW, IN = (True if sibling_first else False), (True if swap else False), (True if inline else False)
    with untraced():
        spread = "...F"
        sibling = "best { %s }" % S2
        plain = P1 % spread
        merged = P2 % (("%s %s" % (sibling, spread)) if SF else ("%s %s" % (spread, sibling)))
        if P1.split(" ")[0] == P2.split(" ")[0]:
            # both places start at the same root field: give the second an alias so that they stay two places
            merged = "again: " + merged
        parts = [merged, plain] if SW else [plain, merged]
        if IN:
            # the same reuse without a named fragment: ONE inline selection shared through a list of two runtime positions
            text = "{ users { best { %s } } users { best { %s } } }" % (S1, S2)
        else:
            text = "{ %s } fragment F on User { best { %s } }" % (" ".join(parts), S1)
        ok, reached = check_document(text, {})
    return result(ok, reached)


# ---- the SAME fragment spread several times in ONE selection set (directly, or once more through another fragment), some of the spreads switched off
SPREAD_DIRS = ("", " @skip(if: true)", " @skip(if: false)", " @include(if: false)", " @include(if: true)", " @skip(if: $s)", " @include(if: $s)")
SPREAD_PLACES = ("{ %s }", "{ me { %s } }", "{ users { %s } }", "{ me { best { %s } friends { %s } } }", "{ n ... on Query { %s } }")
SPREAD_FRAGS = (("Query", "n"), ("User", "name"), ("User", "name"), ("User", "name"), ("Query", "me { id }"))


def _spread_directives(d1: int, d2: int, d3: int, via: int, place: int, sval: bool) -> bool:
    """
    pre: 0 <= d1 < len(SPREAD_DIRS) and 0 <= d2 < len(SPREAD_DIRS) and -1 <= d3 < len(SPREAD_DIRS) and 0 <= via <= 3 and 0 <= place < len(SPREAD_PLACES)
    pre: d3 == -1 or (thorough() and via == 0)
    pre: sval or d1 >= 5 or d2 >= 5 or d3 >= 5
    pre: shard_of(d1 * 7 + d2)
    post: _
    """
    D1, D2, PL = pick(d1, SPREAD_DIRS), pick(d2, SPREAD_DIRS), concrete_int(place, 0, len(SPREAD_PLACES) - 1)
    D3 = None if concrete_int(d3, -1, len(SPREAD_DIRS) - 1) < 0 else SPREAD_DIRS[concrete_int(d3, 0, len(SPREAD_DIRS) - 1)]
    VIA, SV = concrete_int(via, 0, 3), (True if sval else False)
    with untraced():
        on, body = SPREAD_FRAGS[PL]
        # via: which of the spreads reaches F through another fragment G (0 none, 1 the first, 2 the second, 3 the first through an inline fragment)
        first = "...G" if VIA == 1 else ("... on %s { ...F%s }" % (on, D1) if VIA == 3 else "...F")
        second = "...G" if VIA == 2 else "...F"
        sel = "%s%s %s%s" % (first, "" if VIA == 3 else D1, second, D2)
        if D3 is not None:
            sel += " ...F%s" % D3
        text = SPREAD_PLACES[PL].replace("%s", sel) + " fragment F on %s { %s }" % (on, body)
        if VIA in (1, 2):
            text += " fragment G on %s { ...F }" % on
        if "$s" in text:
            text = "query ($s: Boolean!) " + text
        ok, reached = check_document(text, {"s": SV})
    return result(ok, reached)


# ---- custom scalars accept whatever their parser accepts - and everything else is a reported error, never a crash
CS_LITERALS = ("1", "1.5", "\"s\"", "true", "null", "RED", "[1, 2]", "[]", "{a: 1}", "{}", "{a: {b: [RED, {c: null}]}}", "$v", "[$v]", "{a: $v}", "{a: 1, a: 2}", "[[\"x\"], {y: $nope}]")
CS_POSITIONS = ("{ f(j: %L) }", "query ($v: JSON) { f(j: %L) }", "query ($v: JSON = %L) { f(j: $v) }", "{ g(i: {j: %L}) }", "query ($v: JSON) { g(i: {j: %L, js: [%L]}) }", "{ f(j: 1) @d(j: %L) }",
                "query ($v: JSON) { l(js: [%L, 1]) }")
_CS_SCHEMAS = {}


def cs_schema(kind):
    if kind not in _CS_SCHEMAS:
        from py_gql import build_schema
        from py_gql.schema import ScalarType
        sdl = "%s input I { j: JSON js: [JSON] } type Query { f(j: JSON): Int g(i: I): Int l(js: [JSON]): Int } directive @d(j: JSON) on FIELD"
        if kind == 0:
            _CS_SCHEMAS[kind] = build_schema(sdl % "scalar JSON")                      # the default scalar an SDL declaration gives
        elif kind == 1:
            _CS_SCHEMAS[kind] = build_schema(sdl % "", additional_types=[ScalarType("JSON", serialize=lambda v: v, parse=lambda v: v)])     # parse only, no parse_literal
        else:
            def strict(v):
                if not isinstance(v, str):
                    raise ValueError("JSON text expected")
                return v
            _CS_SCHEMAS[kind] = build_schema(sdl % "", additional_types=[ScalarType("JSON", serialize=str, parse=strict)])                 # a parser that rejects with ValueError
    return _CS_SCHEMAS[kind]


def _custom_scalar_literals(lit: int, pos: int, kind: int, given: int) -> bool:
    """
    pre: 0 <= lit < len(CS_LITERALS) and 0 <= pos < len(CS_POSITIONS) and 0 <= kind <= 2 and 0 <= given <= 2
    pre: shard_of(lit)
    post: _
    """
    L, P, K, GV = pick(lit, CS_LITERALS), pick(pos, CS_POSITIONS), concrete_int(kind, 0, 2), concrete_int(given, 0, 2)
    with untraced():
        text = P.replace("%L", L)
        schema = cs_schema(K)
        try:
            doc = parse(text)
        except GraphQLSyntaxError:
            return result(True, False)
        errors = validate_ast(schema, doc).errors           # any exception propagates = violation
        if not isinstance(errors, list):
            return result(False, True)
        if errors:
            return result(True, True)
        variables = ({}, {"v": "text"}, {"v": {"k": [1, None]}})[GV]
        res = graphql_blocking(schema, text, variables=variables, root={"f": 1, "g": 2, "l": 3})      # validated: must not raise
        ok = isinstance(res.response(), dict)
        from py_gql import process_graphql_query
        from py_gql.execution import Executor
        res2 = process_graphql_query(schema, text, variables=variables, root={"f": 1, "g": 2, "l": 3}, executor_cls=Executor)
        ok = ok and json.dumps(res.response(), default=repr) == json.dumps(res2.response(), default=repr)
    return result(ok, True)


# ---- variables used through a fragment that several operations share (each operation declares its own types)
STYPES = ("Boolean!", "Boolean", "Boolean = true", "Int", None)          # declaration of $s (None = not declared)
XTYPES = ("Int", "Int!", "Int = 2", "String", "[Int]", None)             # declaration of $x


def _decl(name, t):
    return "" if t is None else "$%s: %s" % (name, t)


def _shared_fragment_ops(s1: int, x1: int, s2: int, x2: int, depth: int, order: bool) -> bool:
    """
    pre: 0 <= s1 < len(STYPES) and 0 <= x1 < len(XTYPES) and 0 <= s2 < len(STYPES) and 0 <= x2 < len(XTYPES) and 0 <= depth <= 1
    pre: shard_of(s1 * len(XTYPES) + x1)
    post: _
    """
    S1, X1, S2, X2 = pick(s1, STYPES), pick(x1, XTYPES), pick(s2, STYPES), pick(x2, XTYPES)
    D = concrete_int(depth, 0, 1)
    ORD = True if order else False
    with untraced():
        def op(name, st, xt):
            decls = ", ".join(d for d in (_decl("s", st), _decl("x", xt)) if d)
            return "query %s%s { me { ...Shared } }" % (name, ("(%s)" % decls) if decls else "")
        shared = "fragment Shared on User { name @skip(if: $s) %s }" % ("...Inner" if D else "score(scale: $x)")
        inner = "fragment Inner on User { score(scale: $x) }" if D else ""
        parts = [op("First", S1, X1), op("Second", S2, X2), shared, inner]
        text = " ".join(parts if ORD else [parts[1], parts[0], parts[3], parts[2]])

        def ok_decl(st, xt):
            # spec 5.8.5 All Variable Usages Are Allowed: $s feeds a Boolean! argument, $x an Int argument with a default
            s_ok = st in ("Boolean!", "Boolean = true")
            x_ok = xt in ("Int", "Int!", "Int = 2")
            return s_ok and x_ok
        expected_valid = ok_decl(S1, X1) and ok_decl(S2, X2)
        doc = parse(text)
        schema = G.build_real_schema()
        errors = validate_ast(schema, doc).errors
        ok = (not errors) == expected_valid
        if ok and expected_valid:
            for name in ("First", "Second"):
                res = graphql_blocking(schema, text, variables={"s": False, "x": 3}, root=G.make_data(), operation_name=name)   # must not raise
                ok = ok and isinstance(res.response().get("data"), dict)
    return result(ok, expected_valid)


# ---- SameResponseShape (spec 5.3.2) across parents that are different object types: every pair of wrapped types
SHAPE_WRAPS = [w for n in range(4) for w in ("".join(p) for p in __import__("itertools").product("![", repeat=n)) if "!!" not in w]
SHAPE_BASES = ("Int", "String", "O", "E")


def same_response_shape(w1, b1, w2, b2):
    while True:
        if w1[:1] == "!" or w2[:1] == "!":
            if not (w1[:1] == "!" and w2[:1] == "!"):
                return False
            w1, w2 = w1[1:], w2[1:]
        if w1[:1] == "[" or w2[:1] == "[":
            if not (w1[:1] == "[" and w2[:1] == "["):
                return False
            w1, w2 = w1[1:], w2[1:]
            continue
        break
    if b1 in ("Int", "String", "E") or b2 in ("Int", "String", "E"):
        return b1 == b2
    return True            # both composite: the (identical) sub-selections are merged


def shape_world(w1, b1, w2, b2):
    from py_gql.schema import EnumType, Field, Int, ListType, NonNullType, ObjectType, Schema, String, UnionType
    o = ObjectType("O", [Field("z", Int)])
    base = {"Int": Int, "String": String, "O": o, "E": EnumType("E", ["X", "Y"])}

    def build(w, b):
        t = base[b]
        for c in reversed(w):
            t = NonNullType(t) if c == "!" else ListType(t)
        return t

    def value(w, b):
        v = {"Int": 1, "String": "s", "O": {"z": 2}, "E": "X"}[b]
        for c in reversed(w):
            if c == "[":
                v = [v]
        return v
    a = ObjectType("A", [Field("v", build(w1, b1)), Field("k", Int)])
    bb = ObjectType("B", [Field("v", build(w2, b2)), Field("k", Int)])
    u = UnionType("U", [a, bb], resolve_type=lambda v, *_: v["t"])
    q = ObjectType("Query", [Field("us", ListType(u))])
    return Schema(q), {"us": [{"t": "A", "v": value(w1, b1), "k": 1}, {"t": "B", "v": value(w2, b2), "k": 2}]}


def _response_shapes(w1: int, b1: int, w2: int, b2: int, via: int) -> bool:
    """
    pre: 0 <= w1 < len(SHAPE_WRAPS) and 0 <= w2 < len(SHAPE_WRAPS) and 0 <= b1 < len(SHAPE_BASES) and 0 <= b2 < len(SHAPE_BASES) and 0 <= via <= 4
    pre: shard_of(w1)
    post: _
    """
    W1, W2, B1, B2 = pick(w1, SHAPE_WRAPS), pick(w2, SHAPE_WRAPS), pick(b1, SHAPE_BASES), pick(b2, SHAPE_BASES)
    V = concrete_int(via, 0, 4)
    with untraced():
        schema, root = shape_world(W1, B1, W2, B2)
        s1, s2 = ("v { z }" if B1 == "O" else "v"), ("v { z }" if B2 == "O" else "v")
        text = ("{ us { ... on A { %s } ... on B { %s } } }", "{ us { ...FA ...FB } } fragment FA on A { %s } fragment FB on B { %s }",
                "{ us { ... on A { k %s } k: __typename ... on B { x: k %s } } }",
                "{ us { ... on A { ... { %s } } ... on B { %s } } }",                                   # the field sits in a type-less inline fragment inside the typed branch
                "{ us { ... on A { ... @include(if: true) { ... { %s } } } ... on B { ... @skip(if: false) { %s } } } }")[V] % (s1, s2)
        if V == 2:
            # control: k (Int) against k: __typename (String!) must conflict whatever v is
            exp_ok = False
        else:
            exp_ok = same_response_shape(W1, B1, W2, B2)
        errors = validate_ast(schema, parse(text)).errors
        ok = (not errors) == exp_ok
        if ok and not errors:
            # validated, so the response has one unambiguous shape per key: both list items carry v with the SAME wrapper structure
            data = graphql_blocking(schema, text, root=root).response().get("data")
            ok = data is not None and [depth_of(item["v"]) for item in data["us"]] == [W1.count("[")] * 2
    return result(ok, True)


def depth_of(v):
    n = 0
    while isinstance(v, list):
        n += 1
        v = v[0]
    return n


# ---- conflicts that are only visible through (nested) fragment spreads: depth x depth x fragment-name length x definition order x parent
NAME_STYLES = (lambda side, i: "ABCDEF"[side * 3 + i], lambda side, i: ("Aa", "Bb")[side] + "xyz"[i], lambda side, i: ("Left", "Right")[side] + "Frag" + str(i),
               lambda side, i: ("F", "Fx")[side] + "_" * i)


def nested_conflict_document(d1, d2, style, reverse, parent, conflict, shared_tail):
    on, f1, f2 = (("Query", "x: n", "x: echo"), ("User", "x: name", "x: age"), ("User", "x: name", "x: age"))[parent]
    if not conflict:
        f2 = f1
    name = NAME_STYLES[style]
    defs, tops = [], []
    for side, depth, leaf in ((0, d1, f1), (1, d2, f2)):
        if depth == 0:
            tops.append(leaf)
            continue
        tops.append("...%s" % name(side, 0))
        for i in range(depth):
            body = leaf if i == depth - 1 else "...%s" % name(side, i + 1)
            if shared_tail and i == depth - 1:
                body = "%s ...Tail" % leaf
            defs.append("fragment %s on %s { %s }" % (name(side, i), on, body))
    if shared_tail and (d1 or d2):
        defs.append("fragment Tail on %s { __typename }" % on)
    if reverse:
        defs.reverse()
    sel = " ".join(tops)
    if parent == 2:
        # the two sides sit under two DIFFERENT nodes of the same parent field, merged by response key
        op = "{ me { %s } me { %s } }" % (tops[0], tops[1])
    else:
        op = "{ %s }" % sel if parent == 0 else "{ me { %s } }" % sel
    return " ".join([op] + defs) if not reverse else " ".join(defs + [op])


def _nested_conflicts(d1: int, d2: int, style: int, reverse: bool, parent: int, conflict: bool, shared_tail: bool) -> bool:
    """
    pre: 0 <= d1 <= 3 and 0 <= d2 <= 3 and 0 <= style < len(NAME_STYLES) and 0 <= parent <= 2
    pre: shard_of(d1 * 4 + d2)
    post: _
    """
    D1, D2, ST, P = concrete_int(d1, 0, 3), concrete_int(d2, 0, 3), concrete_int(style, 0, len(NAME_STYLES) - 1), concrete_int(parent, 0, 2)
    RV, CF, TL = (True if reverse else False), (True if conflict else False), (True if shared_tail else False)
    with untraced():
        text = nested_conflict_document(D1, D2, ST, RV, P, CF, TL)
        errors = validate_ast(G.build_real_schema(), parse(text)).errors
        reported = any("conflict" in str(e) for e in errors)
        ok = reported == CF and bool(errors) == CF
        if ok and not CF:
            ok, _ = check_document(text, {})
    return result(ok, CF)


CONDITIONS = [
    Cond(
        name="spread_directives", fn=_spread_directives, quick=100, thorough=200, per_path=60, shards_quick=16, shards_thorough=16,
        bound="ONE fragment spread two (thorough: or three) times in one selection set (directly, through a second fragment, inside an inline fragment) x 7 directives per spread (none, @skip / @include with both literals "
              "and with a variable) x both variable values x 5 places (root, object, list items, two sibling objects, inside a type-conditioned inline fragment): validation reports nothing and both executors "
              "(+ the deferred leg) deliver what the reference executor's CollectFields gives - a spread that is switched off does not switch off the others",
        symbolic={"d1,d2,d3,via,place,sval": "choice"}, assumptions=["as sound_source"], witness={"d1": 1, "d2": 0, "d3": -1, "via": 0, "place": 0, "sval": True},
    ),
    Cond(
        name="custom_scalar_literals", fn=_custom_scalar_literals, quick=90, thorough=200, per_path=60, shards_quick=16, shards_thorough=16,
        bound="%d literals of every kind (scalars, null, enum, lists, objects, nested, with variables, duplicate keys) at %d positions of a CUSTOM scalar (argument, variable default, input field, list item, directive argument) x 3 scalars "
              "(SDL-declared default, parse only, a parser rejecting with ValueError) x 3 variable assignments: validate_ast returns a list and never raises; when it is silent both executors answer without raising, identically" % (len(CS_LITERALS), len(CS_POSITIONS)),
        symbolic={"lit,pos,kind,given": "choice"}, witness={"lit": 0, "pos": 0, "kind": 0, "given": 0},
    ),
    Cond(
        name="fragment_reuse", fn=_fragment_reuse, quick=150, thorough=200, per_path=60, shards_quick=16, shards_thorough=16,
        bound="one named fragment selecting `best { s1 }` spread at TWO places of one operation (%d places: object, list items, nested object, nested list, abstract field) while only one place also selects a same-key sibling `best { s2 }` "
              "(before or after the spread), %d x %d sub-selections, either place first: validation never raises; when it reports nothing both executors return exactly the reference data (each place gets its own merged sub-selection)" % (len(REUSE_PLACES), len(REUSE_SUB), len(REUSE_SUB)),
        symbolic={"s1,s2": "choice: sub-selections", "p1,p2": "choice: places", "sibling_first,swap,inline": "choice"},
        assumptions=["as sound_source: reference executor oracles/ref_exec.py; BlockingExecutor and the generic Executor must agree"],
        witness={"s1": 1, "s2": 0, "p1": 0, "p2": 1, "sibling_first": False, "swap": False, "inline": False},
    ),
    Cond(
        name="shared_fragment_ops", fn=_shared_fragment_ops, quick=100, thorough=200, per_path=60, shards_quick=15, shards_thorough=15,
        bound="two operations spreading one fragment (directly or through a second fragment) that uses $s in @skip(if:) and $x as an Int argument; each operation declares $s / $x with one of 5 / 6 declarations (compatible, nullable, defaulted, "
              "wrong type, missing), both definition orders: validation accepts exactly when BOTH operations declare compatible types, and then both execute",
        symbolic={"s1,x1,s2,x2": "choice: variable declarations of the two operations", "depth": "choice: direct or transitive usage", "order": "choice: definition order"},
        assumptions=["reference: spec 5.8.3-5.8.5 (undefined / unused / allowed variable usages) for this family"], witness={"s1": 0, "x1": 0, "s2": 0, "x2": 1, "depth": 0, "order": True},
    ),
    Cond(
        name="response_shapes", fn=_response_shapes, quick=150, thorough=300, per_path=60, shards_quick=len(SHAPE_WRAPS), shards_thorough=len(SHAPE_WRAPS),
        bound="the same response key on two different object types of a union, field types = every pair of wrapper lists of <= 3 wrappers over {Int, String, enum, object} (44 x 44), through inline or named fragments, directly or inside type-less / directive-only inline fragments "
              "(+ a control that must always conflict): validation accepts exactly when SameResponseShape holds, and an accepted operation returns the same list structure for both",
        symbolic={"w1,b1,w2,b2": "choice: the two field types", "via": "choice: inline / named fragments / control"},
        assumptions=["reference: SameResponseShape (spec 5.3.2)"], witness={"w1": 1, "b1": 0, "w2": 1, "b2": 0, "via": 0},
    ),
    Cond(
        name="nested_conflicts", fn=_nested_conflicts, quick=100, thorough=200, per_path=60, shards_quick=16, shards_thorough=16,
        bound="two same-key selections, each written directly or at the bottom of a chain of 1..3 nested fragment spreads (4 x 4 depths) x 4 fragment naming styles (one letter, two letters with a common letter, long names, "
              "names that are prefixes of each other) x definition order x root / nested parent / two merged parent fields x conflicting or identical fields x a further shared fragment: a conflict is reported exactly when the fields differ",
        symbolic={"d1,d2": "choice: nesting depths", "style": "choice: fragment names", "reverse,parent,conflict,shared_tail": "choice"},
        assumptions=["reference: FieldsInSetCanMerge (spec 5.3.2) for two fields of one parent type"], witness={"d1": 2, "d2": 1, "style": 1, "reverse": False, "parent": 0, "conflict": True, "shared_tail": False},
    ),
    Cond(
        name="merge_triples", fn=_merge_triples, quick=100, thorough=200, per_path=60, shards_quick=9, shards_thorough=9,
        bound="three same-response-key selections drawn from 9 variants (different fields, different arguments, composite sub-selections), flat in one selection set or spread over three merged parent fields: "
              "validation reports a conflict exactly when two of them disagree on field name or arguments - including when only the 2nd and 3rd disagree",
        symbolic={"a,b,c": "choice: the three selections", "nested": "choice: flat or through merged parents"},
        assumptions=["reference: FieldsInSetCanMerge restricted to one parent type (spec 5.3.2)"], witness={"a": 1, "b": 1, "c": 2, "nested": True},
    ),
    Cond(
        name="sound_source", fn=_sound_source, quick=100, thorough=200, per_path=60,
        bound="%d documents (%d valid templates + %d hand-written adversarial ones: duplicate fields with list / object / null / variable arguments, one variable at differently typed positions, "
              "conflicts through nested fragments with multi-letter names, unknown names, cycles ...) x %d failing-resolver sets" % (NS, len(G.TEMPLATES), len(ADVERSARIAL), len(G.FAILS)),
        symbolic={"src": "choice: document", "fail": "choice: failing resolvers"},
        assumptions=["validation must return a list without raising; if it is empty, graphql_blocking must not raise and must equal oracles/ref_exec.py (stronger than 'has the right shape')",
                     "variables: template values plus a value of the natural JSON kind for every other declared variable"],
        witness={"src": 0, "fail": 0},
    ),
    Cond(
        name="sound_edit", fn=_sound_edit, quick=400, thorough=1500, per_path=60, shards_quick=16, shards_thorough=NS,
        bound="every single-token edit (substitute / delete / insert, %d-token alphabet of schema names, keywords, punctuation, literals) of the same %d documents that still parses (quick: substitutions and deletions only)" % (len(ALPHABET), NS),
        symbolic={"src": "choice: document", "kind": "choice: edit kind", "pos": "choice: position", "code": "choice: token"},
        assumptions=["as sound_source"], expect_exhaust=False,
        witness={"src": 0, "kind": 0, "pos": 3, "code": 1},
    ),
]
