"""C03 - printing a parsed document and parsing it again is the identity."""
from vf import known  # noqa: F401
from vf.spec import Cond, result, untraced, retraced, shard_of, thorough, concrete_int, pick  # noqa: F401

from py_gql.lang import ast as A
from py_gql.lang import parse, print_ast
from py_gql.lang.parser import parse_value
from py_gql.lang.printer import ASTPrinter
from harness.c01 import SEEDS
from harness.c18 import SOURCES as C18_SOURCES
from harness import gqlworld as G
from oracles import ref_lexer as RL
from py_gql.exc import GraphQLSyntaxError

INDENTS = (2, 4, 1, "\t", 0)

EXTRA = (
    '{ f(a: """a\n \nb""", b: """x\n\t\n  y""") } ',
    'type T { "field desc" f("arg desc" a: Int = 1): Int @d  """\n  multi\n   line\n  """ g: Int }',
    'enum E { "value desc" A """block""" B @deprecated } input I { "in desc" f: Int = 1 }',
    'directive @x("a1" a: Int = 1, """b\n\nb""" b: Int) on FIELD | QUERY  interface N { "i" id: ID! }',
    '{ f(a: "", b: """""", c: """ lead""", d: """trail\\\n""", e: "\\u00e9\U0001F600\\"\\\\\\n", g: """x\n  y\n\n z""") }',
    '{ f(a: """ a\\\n""", b: """\\"""q""", c: """ "q\\"""\n""", d: "\\b\\f\\t\\r/\\/") }',
    'query Q($a: [Int!]! = [1, 2] @d(x: {k: [1]}), $b: T = {a: {b: {}}}) @d { ...F ... @d { a } ... on T { a } }',
    'extend schema @d { query: Q } extend scalar S @d extend type T implements I & J @d extend interface I @d extend union U @d = A | B extend enum E @d extend input In @d',
    '"""\n  leading\n"""\nscalar S "" scalar T',
    '"\\nlead" scalar S "trail\\n" scalar T "a\\rb" scalar U " x" scalar V',
)

from oracles import grammar as GR  # noqa: E402
from py_gql.lang.parser import parse_type  # noqa: E402

# one witness text per expanded production alternative of the grammar (every combination of optional parts)
SENTENCES = tuple(GR.sentence_texts())

DOCS = tuple((e, t) for e, t in SEEDS if e.startswith("document")) + tuple(("document_ts_fragvars", s) for s in C18_SOURCES) + \
    tuple(("document", t) for t, _ in G.TEMPLATES[:20]) + tuple(("document_ts_fragvars", s) for s in EXTRA) + \
    tuple((e if e in ("value", "type") else "document_ts_fragvars", t) for e, t in SENTENCES) + \
    (("document_ts_fragvars", '{ a: a b: b(x: 1) { c: c @d ... on T { d: d } } } fragment F on T { e: e }'),) + \
    tuple(("document", t) for t, _ in G.TEMPLATES[20:])
# (append-only: recorded witnesses index into DOCS; the entry before the last block repeats the field name as alias: still an alias)


def strip_loc(d):
    if isinstance(d, dict):
        out = {k: strip_loc(v) for k, v in d.items() if k != "loc"}
        # a description's spelling (quoted or block) is not content: the printer always writes block strings
        if isinstance(out.get("description"), dict):
            out["description"] = dict(out["description"], block=None)
        if known.c03_member_descriptions_dropped(out.get("__kind__")):
            out["description"] = None
        return out
    if isinstance(d, list):
        return [strip_loc(x) for x in d]
    return d


def parse_entry(entry, text):
    if entry == "value":
        return parse_value(text)
    if entry == "type":
        return parse_type(text)
    return parse(text, allow_type_system="_ts" in entry, experimental_fragment_variables="fragvars" in entry)


def _print_document(doc: int, indent: int) -> bool:
    """
    pre: 0 <= doc < len(DOCS) and 0 <= indent < len(INDENTS)
    pre: shard_of(doc)
    post: _
    """
    entry, text = pick(doc, DOCS)
    IND = pick(indent, INDENTS)
    with untraced():
        tree = parse_entry(entry, text)
        printed = print_ast(tree, indent=IND)
        again = print_ast(tree, indent=IND)
        back = parse_entry(entry, printed)
        ok = printed == again and strip_loc(back.to_dict()) == strip_loc(tree.to_dict()) and print_ast(back, indent=IND) == printed
    return result(ok, True)


# ------------------------------------------------------------------ neighbouring definitions: what one definition ends with and the next begins with
DEFINITION_POOL = (
    "{ a }", "{ a: b }", "query { a }", "query Q { a }", "query ($v: Int) { a }", "query @d { a }", "mutation { a }", "subscription S @d { a }", "fragment F on T { a }", "fragment F($v: Int = 1) on T @d { a }",
    "schema { query: Q }", "schema @d { query: Q }", "extend schema @d", "extend schema { mutation: M }",
    "scalar S", "scalar S @d", "extend scalar S @d", '"desc" scalar S',
    "type A", "type A @d", "type A implements I", "type A implements I & J @d", "type A { f: T }", "extend type A @d", "extend type A implements I", "extend type A { f: T }",
    "interface I", "interface I @d", "interface I { f: T }", "extend interface I @d", "extend interface I { f: T }",
    "union U", "union U @d", "union U = A", "union U = A | B", "extend union U @d", "extend union U = A",
    "enum E", "enum E @d", "enum E { A }", "extend enum E @d", "extend enum E { A }",
    "input In", "input In @d", "input In { a: Int }", "extend input In @d", "extend input In { a: Int }",
    "directive @x on FIELD", "directive @x(a: Int) on FIELD | QUERY", '"""desc""" directive @x on FIELD',
)


def _definition_pairs(d1: int, d2: int, d3: int, indent: int) -> bool:
    """
    pre: 0 <= d1 < len(DEFINITION_POOL) and 0 <= d2 < len(DEFINITION_POOL) and -1 <= d3 < len(DEFINITION_POOL) and 0 <= indent <= 1
    pre: d3 == -1 or (thorough() and d3 < 10)
    pre: shard_of(d1)
    post: _
    """
    A1, A2 = pick(d1, DEFINITION_POOL), pick(d2, DEFINITION_POOL)
    D3 = concrete_int(d3, -1, len(DEFINITION_POOL) - 1)
    IND = pick(indent, INDENTS)
    with untraced():
        text = " ".join([A1, A2] + ([DEFINITION_POOL[D3]] if D3 >= 0 else []))
        try:
            tree = parse_entry("document_ts_fragvars", text)
        except GraphQLSyntaxError:
            return result(True, False)        # the concatenation itself is not a document (e.g. `type A` followed by `{ a }` is ONE definition - still a document, handled below)
        printed = print_ast(tree, indent=IND)
        back = parse_entry("document_ts_fragvars", printed)
        ok = strip_loc(back.to_dict()) == strip_loc(tree.to_dict()) and print_ast(back, indent=IND) == printed
    return result(ok, len(tree.definitions) >= 2)


# ------------------------------------------------------------------ ONE printer object used for several documents (earlier trees already released)
N_REUSE = 40


def _printer_reuse(d1: int, d2: int, d3: int, indent: int) -> bool:
    """
    pre: 0 <= d1 < N_REUSE and 0 <= d2 < N_REUSE and -1 <= d3 < N_REUSE and 0 <= indent <= 1
    pre: d3 == -1 or thorough()
    pre: shard_of(d1)
    post: _
    """
    order = [concrete_int(d1, 0, N_REUSE - 1), concrete_int(d2, 0, N_REUSE - 1)] + ([concrete_int(d3, 0, N_REUSE - 1)] if d3 >= 0 else [])
    IND = pick(indent, INDENTS)
    with untraced():
        printer = ASTPrinter(indent=IND)            # configured once, used for every document - what a long-lived service does
        ok = True
        for rounds in range(2):
            for i in order:
                entry, text = DOCS[i]
                tree = parse_entry(entry, text)
                out = printer(tree)
                del tree                             # the tree is released before the next one is parsed
                ok = ok and out == print_ast(parse_entry(entry, text), indent=IND)
    return result(ok, True)


STR_N = 3 if thorough() else 2


def lexable_block(s) -> bool:
    for c in s:
        if not (c >= " " or c == "\t" or c == "\n"):
            return False
    return True


def block_roundtrip(s, indent, desc):
    """shared body (no contract: CrossHair would enforce a callee's pre-conditions)"""
    ind = ("  ", "    ", "\t", "")[concrete_int(indent, 0, 3)]
    node = A.StringValue(value=s, block=True)
    if desc:
        out = ASTPrinter(indent=ind)._with_desc("scalar S", node)
        if not out.endswith("scalar S"):
            return result(False, True)
        out = out[: len(out) - len("scalar S")]
    else:
        out = ASTPrinter(indent=ind).print_string_value(node)
    try:
        toks = RL.tokens(out)
    except (RL.RefSyntaxError, RL.DontCare):
        return result(False, True)
    ok = len(toks) == 1 and toks[0][0] == "BlockString" and toks[0][3] == s
    return result(ok, len(s) > 0)


def _print_block_string(s: str, indent: int, desc: bool) -> bool:
    """
    pre: len(s) <= STR_N
    pre: 0 <= indent <= 3
    pre: lexable_block(s)
    pre: RL.block_string_value(s) == s
    pre: shard_of(indent * 2 + (1 if desc else 0))
    post: _
    """
    return block_roundtrip(s, indent, desc)


SHAPED_N = 2 if thorough() else 1
BLOCK_SHAPES = (("a\n", "\nb"), ("a\n", ""), (" a", ""), ("", "\n b"), ("a\n  b\n", "c"), ("\ta\n", "\n\tb"), ("a", '"'), ("a\n", "\n\nb"))


def block_shape_ok(p, t) -> bool:
    i = concrete_int(p, 0, len(BLOCK_SHAPES) - 1)
    v = BLOCK_SHAPES[i][0] + t + BLOCK_SHAPES[i][1]
    return lexable_block(t) and RL.block_string_value(v) == v


def _print_block_shaped(p: int, t: str, indent: int, desc: bool) -> bool:
    """
    pre: 0 <= p < len(BLOCK_SHAPES) and len(t) <= SHAPED_N and 0 <= indent <= 3
    pre: shard_of(p * 2 + (1 if desc else 0))
    pre: block_shape_ok(p, t)
    post: _
    """
    i = concrete_int(p, 0, len(BLOCK_SHAPES) - 1)
    s = BLOCK_SHAPES[i][0] + t + BLOCK_SHAPES[i][1]
    return block_roundtrip(s, indent, desc)


def _print_quoted_string(s: str) -> bool:
    """
    pre: len(s) <= STR_N
    post: _
    """
    out = ASTPrinter().print_string_value(A.StringValue(value=s, block=False))
    try:
        toks = RL.tokens(out)
    except (RL.RefSyntaxError, RL.DontCare):
        return result(False, True)
    ok = len(toks) == 1 and toks[0][0] == "String" and toks[0][3] == s
    return result(ok, len(s) > 0)


def _quoted_cases():
    return [{"s": x} for x in ("", "a", "😀", "\ud83d", " \u0085 ", '"', "\\", "\n\r\t\b\f", "\x00\x1f\x7f", "é" * 3, "a\"b\\c/d")]


# ---- a string keeps its value wherever it is printed: characters x context (nesting depth, executable / type-system position) x spelling x indent
STRING_CHARS = ("a", " ", "\n", "\t", '"', "\\", "\u2028", "\u2029", "\x85", "\x0b", "\x0c", "\x1c", "\x1e", "\r", "\u00e9", "\U0001F600", "#", ",", "\ufeff", "\x7f")
STRING_CONTEXTS = (          # the placeholder string "PH" is replaced in the parsed tree
    ("document", '{ f(a: "PH") }'), ("document", '{ a { b { c { f(a: ["PH"], o: {k: "PH"}) } } } }'), ("document", 'query ($v: String = "PH") { f(a: $v) }'),
    ("document", '{ ... on T { f @d(x: "PH") } } fragment F on T { g(a: "PH") }'), ("document_ts", 'type T { f(a: String = "PH"): Int @d(x: "PH") }'),
    ("document_ts", 'input I { f: [String] = ["PH"] } enum E { X @deprecated(reason: "PH") }'), ("document_ts", 'extend type T @d(x: {k: ["PH"]}) { g: Int }'),
    ("document_ts", '"PH" type T { "PH" f("PH" a: Int): Int } "PH" enum E { "PH" X } "PH" directive @d("PH" x: Int) on FIELD'),
    ("document_ts", 'schema @d(x: "PH") { query: Q } "PH" scalar S "PH" union U = A | B "PH" input I { "PH" f: Int } "PH" interface N { "PH" id: ID }'),
    ("value", '{k: ["PH", {j: "PH"}]}'),
)


def put_strings(node, value, block):
    n = 0
    if isinstance(node, A.StringValue) and node.value == "PH":
        node.value, node.block = value, block
        n += 1
    for slot in getattr(node, "__slots__", ()):
        v = getattr(node, slot, None)
        if isinstance(v, A.Node):
            n += put_strings(v, value, block)
        elif isinstance(v, list):
            for x in v:
                if isinstance(x, A.Node):
                    n += put_strings(x, value, block)
    return n


def values_only(d):
    """tree as a dict without positions and without the quoted / block flag (a spelling, not content)"""
    if isinstance(d, dict):
        return {k: values_only(v) for k, v in d.items() if k not in ("loc", "block")}
    if isinstance(d, list):
        return [values_only(x) for x in d]
    return d


def _string_in_context(c1: int, c2: int, c3: int, ctx: int, block: bool, indent: int) -> bool:
    """
    pre: 0 <= c1 < len(STRING_CHARS) and -1 <= c2 < len(STRING_CHARS) and -1 <= c3 < len(STRING_CHARS) and (c3 == -1 or c2 >= 0)
    pre: 0 <= ctx < len(STRING_CONTEXTS) and 0 <= indent < len(INDENTS)
    pre: thorough() or c3 == -1 or (c1 == 0 and c3 == 0)
    pre: shard_of(c1)
    post: _
    """
    chars = [pick(c1, STRING_CHARS)] + [STRING_CHARS[concrete_int(c, -1, len(STRING_CHARS) - 1)] for c in (c2, c3) if concrete_int(c, -1, len(STRING_CHARS) - 1) >= 0]
    entry, text = pick(ctx, STRING_CONTEXTS)
    BL = True if block else False
    IND = pick(indent, INDENTS)
    with untraced():
        value = "".join(chars)
        if BL and not (lexable_block(value) and RL.block_string_value(value) == value):
            return result(True, False)          # not a value the parser can produce from a block string
        tree = parse_entry(entry, text)
        if put_strings(tree, value, BL) == 0:
            return result(False, True)
        printed = print_ast(tree, indent=IND)
        try:
            back = parse_entry(entry, printed)
        except Exception:  # noqa
            return result(False, True)          # the printed text must be accepted by the parser
        a, b = values_only(strip_loc(tree.to_dict())), values_only(strip_loc(back.to_dict()))
        ok = a == b and print_ast(back, indent=IND) == printed
    return result(ok, True)


CONDITIONS = [
    Cond(
        name="printer_reuse", fn=_printer_reuse, quick=90, thorough=600, per_path=30, shards_quick=16, shards_thorough=16,
        bound="ONE ASTPrinter object printing a sequence of 2 (thorough 3) documents out of %d, twice over, each tree released before the next is parsed x 2 indents: every text equals what a fresh printer gives for that document "
              "(printing is a function of the tree, not of what the printer printed before)" % N_REUSE,
        symbolic={"d1,d2,d3": "choice: documents", "indent": "choice"}, witness={"d1": 0, "d2": 1, "d3": -1, "indent": 0},
    ),
    Cond(
        name="definition_pairs", fn=_definition_pairs, quick=90, thorough=600, per_path=30, shards_quick=16, shards_thorough=16,
        bound="every ordered pair (thorough: also triples ending in one of the 10 executable definitions) of %d definition texts - every kind of executable and type-system definition and extension, with and without body, "
              "directives, description; the anonymous query in shorthand and keyword form - concatenated into one mixed document x 2 indents: print then parse gives the same tree (same number of definitions), and printing again the same text" % len(DEFINITION_POOL),
        symbolic={"d1,d2,d3": "choice: definitions", "indent": "choice"}, witness={"d1": 22, "d2": 3, "d3": -1, "indent": 0},
    ),
    Cond(
        name="print_document", fn=_print_document, quick=100, thorough=300, per_path=60, shards_quick=16, shards_thorough=16,
        bound="%d documents (grammar-covering seed corpus, visitor sources with every node kind and 0/1/2-element lists, execution templates, one witness text for EVERY expanded production alternative of the grammar (all combinations of optional parts), printer-specific texts: empty / leading-blank / quote- and backslash-ending block strings, "
              "astral characters, every escape, descriptions on fields, arguments, enum values, input fields) x 5 indent settings: print deterministic, re-parse equal up to positions, re-print identical" % len(DOCS),
        symbolic={"doc": "choice: document", "indent": "choice: indent setting"},
        witness={"doc": 0, "indent": 0},
    ),
    Cond(
        name="string_in_context", fn=_string_in_context, quick=200, thorough=900, per_path=60, shards_quick=len(STRING_CHARS), shards_thorough=len(STRING_CHARS),
        bound="strings of 1..3 characters from a %d-character alphabet (letters, blank, LF, CR, tab, quote, backslash, U+2028, U+2029, U+0085, VT, FF, FS, RS, DEL, BOM, '#', ',', BMP and astral non-ASCII; quick: 1..2 characters "
              "plus a..a triples) placed as quoted or block string in %d contexts (argument at depth 1 and 4, list / object member, variable default, directive argument on field / type / schema, SDL default, deprecation "
              "reason, description of every describable definition, bare value) x 5 indents: the printed text parses, gives the same tree (string values compared exactly), and re-prints identically" % (len(STRING_CHARS), len(STRING_CONTEXTS)),
        symbolic={"c1,c2,c3": "choice: characters", "ctx": "choice: context", "block": "choice: spelling", "indent": "choice"},
        witness={"c1": 0, "c2": 6, "c3": -1, "ctx": 1, "block": False, "indent": 0},
    ),
    Cond(
        name="print_block_string", fn=_print_block_string, quick=150, thorough=900, per_path=30, shards_quick=8, shards_thorough=8,
        bound="every parser-producible block string value of <= 2 (thorough 3) symbolic characters, as a value (4 indents) and as a description: printed text is one block string token with that value",
        symbolic={"s": "data: the string content", "indent,desc": "choice"}, assumptions=["re-lexed with the reference lexer"],
        witness={"s": "ab", "indent": 0, "desc": False},
    ),
    Cond(
        name="print_block_shaped", fn=_print_block_shaped, quick=150, thorough=900, per_path=30, shards_quick=2 * len(BLOCK_SHAPES), shards_thorough=2 * len(BLOCK_SHAPES),
        bound="block string values prefix + t + suffix for %d multi-line shapes (interior lines, indented continuation lines, tab indentation, trailing quote, blank interior lines) with symbolic t of <= 1 (thorough 2) characters, 4 indents, value or description" % len(BLOCK_SHAPES),
        symbolic={"p": "choice: shape", "t": "data: symbolic middle", "indent,desc": "choice"}, assumptions=["re-lexed with the reference lexer"],
        witness={"p": 0, "t": " ", "indent": 0, "desc": False},
    ),
    Cond(
        name="print_quoted_string", fn=_print_quoted_string, quick=100, thorough=400, per_path=30, expect_exhaust=False,
        bound="every quoted string value of <= 2 (thorough 3) symbolic characters: json.dumps is a C boundary, CrossHair realises the string there - one sampled witness per path class, not an exhaustive verdict",
        symbolic={"s": "data (sampled at json.dumps)"}, witness={"s": "\"b"},
    ),
    Cond(name="quoted_cases", fn=_print_quoted_string, kind="concrete", cases=_quoted_cases, bound="fixed strings (astral, lone surrogate, U+2028, controls); NOT a solver result"),
]
