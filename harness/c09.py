"""C09 - top-level mutation fields run strictly one after another in document order."""
from vf import known  # noqa: F401
from vf.spec import Cond, result, untraced, retraced, shard_of, thorough, concrete_int, pick  # noqa: F401

from py_gql.execution import BlockingExecutor, Executor
from harness import execworld as W
from harness.c08 import make_chooser, run_config, agree

MUTATIONS = (          # top-level fields of the operation, in document order
    ("m1 { x y }", "m2 { x y }", "m3"),
    ("m3", "m1 { x }"),
    ("m2 { y x }", "m1 { x }"),
    ("m1 { x }",),
    ("a: m1 { x }", "b: m1 { y }", "m3"),
    ("m1 { x }", "__typename", "m2 { y }", "t: __typename", "m3"),          # meta-fields between the mutations (skipped entirely when introspection is disabled)
    # (appended) a top-level field that fails while its value is COMPLETED (not in its resolver): contained like any field error, the later fields still run
    ("m1 { x }", "msc", "m3"),
    ("msc", "m2 { y sc }", "m3"),
    # (appended) a LIST-typed top-level field that fails while a later item is completed (its type resolver raises ResolverError) after the sub-selection of an
    # earlier item has been started: the field is answered (null + error) only once everything it started has finished
    ("ml { id ... on Obj { x y } }", "m3"),
    ("m1 { x }", "ml { ... on Obj { y } }", "m3"),
)
# how the same top-level fields are spelled in the document: (template, operation name); %A = all fields, %H = the first, %T = the rest
SHAPES = (
    ("mutation { %A }", None),
    ("mutation { ...F } fragment F on Mutation { %A }", None),
    ("mutation { ... on Mutation { %A } }", None),
    ("mutation { ... { %A } }", None),
    ("mutation { ... @include(if: true) { %A } }", None),
    ("query Q { __typename } mutation M { %A }", "M"),
    ("fragment F on Mutation { %A } mutation M { ...F } query Q { __typename }", "M"),
    ("mutation { %H ...F } fragment F on Mutation { %T }", None),
    ("mutation { ... on Mutation { %H } ... { %T } }", None),
    ("mutation { ...F } fragment F on Mutation { ...G } fragment G on Mutation { %A }", None),
)


def spell(fields, shape):
    tpl, opname = SHAPES[shape]
    rest = " ".join(fields[1:]) or "__typename"
    return tpl.replace("%A", " ".join(fields)).replace("%H", fields[0]).replace("%T", rest), opname


def _serial(sr: bool, di: bool, q: int, sh: int, k1: int, k2: int, kx: int, ky: int, cfg: int, s0: int, s1: int, s2: int, s3: int, s4: int, s5: int, s6: int) -> bool:
    """
    pre: 0 <= q < len(MUTATIONS) and 0 <= sh < len(SHAPES) and 0 <= k1 <= 3 and 1 <= k2 <= 2 and 1 <= kx <= 2 and 0 <= ky <= 1 and 0 <= cfg <= 3
    pre: 0 <= s0 <= 6 and 0 <= s1 <= 5 and 0 <= s2 <= 4 and 0 <= s3 <= 3 and 0 <= s4 <= 2 and 0 <= s5 <= 1 and s6 == 0
    pre: shard_of(q * 4 + cfg + sh + s0)
    pre: thorough() or sh == 0 or (q == 0 and s3 == 0)
    pre: thorough() or q < 5 or (s3 == 0 and s4 == 0 and k1 <= 1 and k2 == 1 and kx == 1)
    pre: not di or q == 5 or (thorough() and sh == 0)
    pre: not sr or thorough() or (sh <= 1 and s3 == 0)
    post: _
    """
    DI = True if di else False
    SR = True if sr else False
    Q, OPNAME = spell(pick(q, MUTATIONS), concrete_int(sh, 0, len(SHAPES) - 1))
    KW = {"operation_name": OPNAME} if OPNAME else {}
    if DI:
        KW["disable_introspection"] = True
    K1, K2, KX, KY, C = concrete_int(k1, 0, 3), concrete_int(k2, 1, 2), concrete_int(kx, 1, 2), concrete_int(ky, 0, 1), concrete_int(cfg, 0, 3)
    sched = [s0, s1, s2, s3, s4, s5, s6]
    if C == 0 and any(s != 0 for s in sched):
        return result(True, False)
    with untraced():
        kinds = {"m1": K1, "m2": K2, "m3": 1, "x": KX, "y": KY}
        blog, glog = [], []
        W.SAME_ROOT = SR           # the same object type as query and mutation root: the operation KIND decides serial execution, not the root type
        try:
            base, _ = W.run_blocking(kinds, Q, BlockingExecutor, log=blog, **KW)
            got, w = run_config(C, kinds, Q, sched, False, log=glog, **KW)
        finally:
            W.SAME_ROOT = False
        if got[0] == "pruned":
            return result(True, False)
        steps = getattr(w, "steps", 0)
    for r in sched[steps:]:
        if r != 0:
            return result(True, False)
    with untraced():
        ok = agree(base, got, False)
        if base[0] == "ok":
            # (1) resolver invocations happen in the serial document order of the blocking baseline, whatever completes first
            # (2) a failing top-level field does not stop the later ones (same log as the baseline, which runs them)
            top = [e for e in glog if e[1] in TOP]
            ok = ok and [e for e in blog if e[1] in TOP] == top
            # sub-fields of top-level field i all run before top-level field i+1 is invoked
            ok = ok and serial_ok(glog, blog)
            # response keys in document order: compared through the ordered JSON text in agree()
        else:
            # an unexpected exception at m1 must surface; later top-level resolvers must not have run before it
            ok = ok and serial_ok(glog)
    return result(ok, steps >= 2 or C == 0)


TOP = ("m1", "m2", "m3", "msc", "ml")


def owners(log):
    """run-length compressed sequence of the top-level field each resolver invocation belongs to"""
    out = []
    for (_, key, rid, _p) in log:
        o = key if key in TOP else ("ml" if rid in ("ml0", "ml2") else rid)
        if not out or out[-1] != o:
            out.append(o)
    return out


def serial_ok(log, base_log=None):
    """no interleaving: once execution has moved on to a later top-level field, no resolver of an earlier one runs"""
    o = owners(log)
    if len(set(o)) != len(o):
        return False
    return base_log is None or o == owners(base_log)[: len(o)]


CONDITIONS = [
    Cond(
        name="serial", fn=_serial, quick=240, thorough=900, per_path=60, shards_quick=16, shards_thorough=20,
        bound="8 mutation operations (1..3 top-level fields, a field failing while its value is completed, nested custom sub-resolvers, aliases of the same field, meta-fields between the mutations) x introspection enabled / disabled x separate root types or ONE object type as query and mutation root x %d spellings of the same top-level fields (plain, named / typed inline / untyped inline / directive inline fragment, "
              "nested fragments, split between selection and fragment, selected by name among several operations; quick: all spellings for the 3-field operation only, 4th completion choice fixed) x" % len(SHAPES) + " resolver kinds (m1: default/value/ResolverError/ValueError; m2, x: value/ResolverError; y: default/value) "
              "x 4 configurations x EVERY completion order (<= 7 in-flight tasks)",
        symbolic={"sr": "choice: shared root type", "di": "choice: disable_introspection", "q": "choice: operation", "sh": "choice: spelling", "k1,k2,kx,ky": "choice: resolver kinds / failure position", "cfg": "choice", "s0..s6": "choice: completion order"},
        assumptions=["as C08 (stub pool, DetLoop); 'invoked' = the moment the resolver body runs, which the stub pool delays until the schedule picks the task"],
        witness={"sr": False, "di": False, "q": 0, "sh": 1, "k1": 1, "k2": 1, "kx": 1, "ky": 1, "cfg": 1, "s0": 0, "s1": 0, "s2": 0, "s3": 0, "s4": 0, "s5": 0, "s6": 0},
    ),
]
