"""C07 - resolvers only receive arguments that conform to the declared input types."""
from typing import List

from vf import known  # noqa: F401
from vf.spec import Cond, result, untraced, concrete_int, concrete_bool  # noqa: F401

from py_gql.schema import Int
from py_gql.exc import CoercionError
from py_gql.utilities import coerce_value


def _int_variable(v: int) -> bool:
    """
    pre: -(10**12) <= v <= 10**12
    post: _
    """
    # real code: variable route for the Int scalar
    try:
        got = (True, coerce_value(v, Int))
    except CoercionError:
        got = (False, None)
    # oracle: spec 3.5.1 - signed 32 bit
    inrange = -2147483648 <= v <= 2147483647
    exp = (True, v) if inrange else (False, None)
    return result(got == exp, reached=inrange)


CONDITIONS = [
    Cond(
        name="int_variable", fn=_int_variable, quick=30, thorough=120,
        bound="v: every int with |v| <= 10**12 (z3 Int; the bound only limits the digit-count forks of the error message formatting)",
        symbolic={"v": "data: the variable value"},
        witness={"v": 7},
    ),
]
