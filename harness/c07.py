"""C07 - resolvers only receive arguments that conform to the declared input types."""
from typing import List

from vf import known  # noqa: F401
from vf.spec import Cond, result, untraced, concrete_int, concrete_bool  # noqa: F401

from py_gql.schema import Int
from py_gql.exc import CoercionError
from py_gql.utilities import coerce_value


def _int_variable(v: int) -> bool:
    """
    pre: -(10**12) <= v <= 10**12
    post: _
    """
    # real code: variable route for the Int scalar
    try:
        got = (True, coerce_value(v, Int))
    except CoercionError:
        got = (False, None)
    # oracle: spec 3.5.1 - signed 32 bit
    inrange = -2147483648 <= v <= 2147483647
    exp = (True, v) if inrange else (False, None)
    return result(got == exp, reached=inrange)


# ------------------------------------------------------------------ literal route == variable route == spec
import json  # noqa: E402

from vf.spec import pick, shard_of  # noqa: E402,F401
from py_gql import build_schema, graphql_blocking  # noqa: E402
from py_gql.schema import (  # noqa: E402
    Argument, EnumType, EnumValue, Field, ID, InputField, InputObjectType, ListType, NonNullType, ObjectType, Schema, String, Boolean,
)

OMIT = "<omitted>"
REJECT = "<reject>"


def make_world():
    color = EnumType("Color", [EnumValue("RED", 1), EnumValue("BLUE", "blue")])
    inp = InputObjectType("In", lambda: [
        InputField("req", NonNullType(Int)), InputField("opt", Int), InputField("dflt", Int, default_value=7),
        InputField("py", String, python_name="py_name"), InputField("self", inp), InputField("col", color, default_value="blue"),
    ])
    box = InputObjectType("Box", [InputField("xs", ListType(NonNullType(Int))), InputField("ys", ListType(Int))])
    return {"Int": Int, "String": String, "Boolean": Boolean, "ID": ID, "Color": color, "In": inp, "Box": box}


def parse_texpr(world, t):
    if t.endswith("!"):
        return NonNullType(parse_texpr(world, t[:-1]))
    if t.startswith("["):
        return ListType(parse_texpr(world, t[1:-1]))
    return world[t]


INTS = (0, 2147483647, -2147483648, 2147483648, -2147483649)


def gen(t, depth=0, extra=False):
    """(json value, literal text) candidates for type expression t"""
    if t.endswith("!"):
        yield from gen(t[:-1], depth, extra)
        return
    yield (None, "null")
    if t.startswith("["):
        item = t[1:-1]
        items = [x for x in gen(item, depth + 1, extra)][: (4 if depth == 0 else 2)]
        yield ([], "[]")
        for v, l in items:
            yield ([v], "[%s]" % l)
            if not isinstance(v, list):
                yield (v, l)                      # single value in list position
        if len(items) >= 2:
            yield ([items[1][0], items[0][0]], "[%s, %s]" % (items[1][1], items[0][1]))
        yield ({"a": 1}, "{a: 1}")
        return
    if t == "Int":
        for i in (INTS if depth == 0 else INTS[:1] + INTS[3:4]):
            yield (i, str(i))
        yield ([1], "[1]")
        yield ({"a": 1}, "{a: 1}")
    elif t == "String":
        yield ("s", '"s"')
        yield ("", '""')
        yield ({"a": 1}, "{a: 1}")
    elif t == "Boolean":
        yield (True, "true")
        yield (False, "false")
        if extra:                           # structurally wrong: a list / an object where a scalar is expected
            yield ([True], "[true]")
            yield ([], "[]")
            yield ({"a": 1}, "{a: 1}")
            yield ({}, "{}")
    elif t == "ID":
        yield ("a", '"a"')
        yield (12, "12")
        if extra:
            yield (["a"], '["a"]')
            yield ({"a": 1}, "{a: 1}")
    elif t == "Color":
        yield ("RED", "RED")
        yield ("BLUE", "BLUE")
        yield ("GREEN", "GREEN")
        yield ([["RED"]], "[[RED]]")
        if extra:
            yield ({"a": 1}, "{a: 1}")
    elif t == "In":
        reqs = [(1, "1"), (None, "null"), (OMIT, None)]
        opts = [(OMIT, None), (2, "2"), (None, "null")]
        dflts = [(OMIT, None), (3, "3"), (None, "null")]
        pys = [(OMIT, None), ("p", '"p"')]
        selfs = [(OMIT, None)] + ([({"req": 4}, "{req: 4}"), ({"req": 4, "zzz": 1}, "{req: 4, zzz: 1}"), ({}, "{}")] if depth < 2 else [])
        cols = [(OMIT, None), ("RED", "RED")]
        import itertools
        combos = list(itertools.product(reqs, opts, dflts, pys, selfs, cols))
        if depth > 0:
            combos = combos[::17]
        for combo in combos:
            js, ls = {}, []
            for name, (v, l) in zip(("req", "opt", "dflt", "py", "self", "col"), combo):
                if v is not OMIT:
                    js[name] = v
                    ls.append("%s: %s" % (name, l))
            yield (js, "{%s}" % ", ".join(ls))
        yield ({"req": 1, "unknown": 2}, "{req: 1, unknown: 2}")
        yield ([{"req": 1}], "[{req: 1}]") if False else ("x", '"x"')
        yield (5, "5")


def spec_coerce(world, t, v):
    """input coercion, spec section 3 (per type) and 6.4.1 CoerceArgumentValues; returns REJECT or the coerced value"""
    if t.endswith("!"):
        if v is None:
            return REJECT
        return spec_coerce(world, t[:-1], v)
    if v is None:
        return None
    if t.startswith("["):
        item = t[1:-1]
        if not isinstance(v, list):
            r = spec_coerce(world, item, v)
            return REJECT if r == REJECT else [r]
        out = []
        for x in v:
            r = spec_coerce(world, item, x)
            if r == REJECT:
                return REJECT
            out.append(r)
        return out
    if t == "Int":
        return v if (isinstance(v, int) and not isinstance(v, bool) and -2147483648 <= v <= 2147483647) else REJECT
    if t == "String":
        return v if isinstance(v, str) else REJECT
    if t == "Boolean":
        return v if isinstance(v, bool) else REJECT
    if t == "ID":
        return str(v) if isinstance(v, (str, int)) and not isinstance(v, bool) else REJECT
    if t == "Color":
        return {"RED": 1, "BLUE": "blue"}.get(v, REJECT) if isinstance(v, str) else REJECT
    if t == "In":
        if not isinstance(v, dict):
            return REJECT
        spec = (("req", "Int!", OMIT, "req"), ("opt", "Int", OMIT, "opt"), ("dflt", "Int", 7, "dflt"), ("py", "String", OMIT, "py_name"),
                ("self", "In", OMIT, "self"), ("col", "Color", "blue", "col"))
        for k in v:
            if k not in [s[0] for s in spec]:
                return REJECT
        out = {}
        for name, ft, default, pyname in spec:
            if name in v:
                r = spec_coerce(world, ft, v[name])
                if r == REJECT:
                    return REJECT
                out[pyname] = r
            elif default is not OMIT:
                out[pyname] = default
            elif ft.endswith("!"):
                return REJECT
        return out
    raise ValueError(t)


TYPE_EXPRS = ("Int", "Int!", "String", "Boolean!", "ID", "Color", "Color!", "In", "In!", "[Int]", "[Int!]", "[Int!]!", "[[Int]]", "[Color!]", "[In!]", "[[In]!]")


# appended later (the case table is append-only: recorded witnesses index into it); these also get structurally wrong values for Boolean / ID / enum
MORE_TYPE_EXPRS = ("Boolean", "[Boolean]", "ID!", "[ID!]", "[Color]", "[Boolean!]!")


def build_cases():
    cases = []
    for t in TYPE_EXPRS + MORE_TYPE_EXPRS:
        seen = set()
        for v, l in gen(t, 0, t in MORE_TYPE_EXPRS):
            key = json.dumps(v, sort_keys=True)
            if key in seen:
                continue
            seen.add(key)
            cases.append((t, v, l))
        cases.append((t, OMIT, None))
    return cases


CASES = build_cases()
# (appended) non-finite numbers for Int positions: what Python's JSON decoder produces for 1e400 / Infinity / NaN; the literal 1e400 is a FloatValue
_INF = float("inf")
CASES += [("Int", _INF, "1e400"), ("Int", -_INF, "-1e400"), ("Int!", _INF, "1e400"), ("[Int]", [1, _INF], "[1, 1e400]"), ("[Int!]", _INF, "1e400"), ("In", {"req": _INF}, "{req: 1e400}"),
          ("Int", 1.5, "1.5")]      # (numbers only: values of ANOTHER JSON kind - true for Int, 1.5 for ID - are outside the property's quantifier, see DESIGN 8.3)
N_CASES = len(CASES)


def run_request(t, query, variables):
    world = make_world()
    calls = []

    def resolver(root, ctx, info, **kw):
        calls.append(kw)
        return 1
    q = ObjectType("Query", [Field("f", Int, args=[Argument("x", parse_texpr(world, t)), Argument("d", Int, default_value=5)], resolver=resolver)])
    schema = Schema(q)
    res = graphql_blocking(schema, query, variables=variables)
    return calls, res


def _routes(case: int, default_var: bool) -> bool:
    """
    pre: 0 <= case < N_CASES
    pre: shard_of(case)
    post: _
    """
    t, v, lit = pick(case, CASES)
    dv = True if default_var else False
    with untraced():
        world = make_world()
        exp = REJECT if (v is OMIT and t.endswith("!")) else (OMIT if v is OMIT else spec_coerce(world, t, v))
        exp_kwargs = None if exp == REJECT else ({"d": 5} if exp is OMIT else {"d": 5, "x": exp})
        # literal route
        if v is OMIT:
            calls_l, res_l = run_request(t, "{ f }", {})
        else:
            calls_l, res_l = run_request(t, "{ f(x: %s) }" % lit, {})
        # variable route (the variable optionally declares a default, which must not matter when a value is supplied)
        decl = "$v: %s" % t
        if dv and not t.endswith("!"):
            decl += " = null"
        if v is OMIT:
            calls_v, res_v = run_request(t, "query (%s) { f(x: $v) }" % decl, {})
            if dv and not t.endswith("!"):
                exp_v = {"d": 5, "x": None}
            else:
                exp_v = exp_kwargs
        else:
            calls_v, res_v = run_request(t, "query (%s) { f(x: $v) }" % decl, {"v": v})
            exp_v = exp_kwargs
        ok = True
        for calls, res, e in ((calls_l, res_l, exp_kwargs), (calls_v, res_v, exp_v)):
            if e is None:
                ok = ok and calls == [] and bool(res.errors)
            else:
                ok = ok and calls == [e] and not res.errors
        if known.c07_excluded(t, v, exp):
            return result(True, False)
    return result(ok, exp != REJECT)


NN_CASES = (
    # (arg type, variable declaration type, default literal, default coerced, a value (json), value coerced)
    ("Int!", "Int", "3", 3, 4, 4),
    ("Color!", "Color", "RED", 1, "BLUE", "blue"),
    ("In!", "In", "{req: 1}", {"req": 1, "dflt": 7, "col": "blue"}, {"req": 2, "dflt": None}, {"req": 2, "dflt": None, "col": "blue"}),
    ("[Int!]!", "[Int!]", "[1]", [1], 5, [5]),
)


def _nullable_var_nonnull_arg(c: int, supply: int) -> bool:
    """
    pre: 0 <= c < len(NN_CASES) and 0 <= supply <= 2
    post: _
    """
    at, vt, dl, dc, val, vc = pick(c, NN_CASES)
    sp = concrete_int(supply, 0, 2)
    with untraced():
        q = "query ($v: %s = %s) { f(x: $v) }" % (vt, dl)
        variables = {} if sp == 0 else ({"v": None} if sp == 1 else {"v": val})
        calls, res = run_request(at, q, variables)
        if sp == 0:
            ok = calls == [{"x": dc, "d": 5}] and not res.errors
        elif sp == 1:
            # explicit null for a non-null argument: rejected, the resolver never sees None
            ok = calls == [] and bool(res.errors)
        else:
            ok = calls == [{"x": vc, "d": 5}] and not res.errors
    return result(ok, True)


# ------------------------------------------------------------------ CoerceArgumentValues (spec 6.4.1) as a full product
from py_gql.schema import Directive  # noqa: E402

#            (type, literal, json value, coerced value, default literal-free coerced default)
FAMILIES = (("Int", "4", 4, 4, 3), ("Color", "BLUE", "BLUE", "blue", 1), ("In", "{req: 2}", {"req": 2}, {"req": 2, "dflt": 7, "col": "blue"}, {"req": 1, "dflt": 7, "col": "blue"}),
            ("[Int]", "5", 5, [5], [1]), ("String", '"s"', "s", "s", "dd"))
VAR_DEFAULT_LITERAL = {"Int": ("9", 9), "Color": ("RED", 1), "In": ("{req: 8}", {"req": 8, "dflt": 7, "col": "blue"}), "[Int]": ("[9]", [9]), "String": ('"vd"', "vd")}
SUPPLIES = ("omitted", "literal", "literal-null", "var-value", "var-null", "var-omitted", "var-omitted-vdefault", "var-omitted-vdefault-null", "var-value-vdefault", "var-null-vdefault")
ARG_DEFAULTS = ("none", "value", "null")
NOVAL = "<no value>"


def spec_argument(nonnull, adef, adef_value, supply, lit_coerced, vdefault_coerced):
    """spec 6.4.1 for ONE argument definition; returns ("error",) | ("absent",) | ("value", v).  Variable validity (allowed position) is decided by the caller."""
    has_value, value = False, None
    if supply == "literal":
        has_value, value = True, lit_coerced
    elif supply == "literal-null":
        has_value, value = True, None
    elif supply in ("var-value", "var-value-vdefault"):
        has_value, value = True, lit_coerced
    elif supply in ("var-null", "var-null-vdefault"):
        has_value, value = True, None
    elif supply == "var-omitted-vdefault":
        has_value, value = True, vdefault_coerced          # CoerceVariableValues puts the default in coercedValues
    elif supply == "var-omitted-vdefault-null":
        has_value, value = True, None
    if not has_value and adef != "none":
        return ("value", adef_value if adef == "value" else None)
    if nonnull and (not has_value or value is None):
        return ("error",)
    if has_value:
        return ("value", value)
    return ("absent",)


def var_is_nullable(nonnull, adef, supply):
    """the variable is declared with the argument's named type; nullable when it declares a default, or when it is omitted / null and the argument default makes the position legal"""
    return (not nonnull) or "vdefault" in supply or (supply in ("var-omitted", "var-null") and adef != "none")


def position_allowed(nonnull, adef, supply):
    """spec 5.8.5 IsVariableUsageAllowed for a variable declared with the argument's named type: nullable when it declares a default, else the argument's own type"""
    if not supply.startswith("var"):
        return True
    var_nullable = var_is_nullable(nonnull, adef, supply)
    if nonnull and var_nullable:
        has_nonnull_vdefault = supply in ("var-omitted-vdefault", "var-value-vdefault", "var-null-vdefault")
        return has_nonnull_vdefault or adef != "none"
    return True


def run_matrix(fam, nonnull, adef, pyname, supply, consumer):
    tname, lit, js, coerced, adefault = FAMILIES[fam]
    world = make_world()
    base = parse_texpr(world, tname)
    at = NonNullType(base) if nonnull else base
    kw = {}
    if adef == "value":
        kw["default_value"] = adefault
    elif adef == "null":
        kw["default_value"] = None
    if pyname:
        kw["python_name"] = "x_py"
    seen = []

    def resolver(root, ctx, info, **kwargs):
        seen.append(kwargs if consumer == "field" else info.get_directive_arguments("cfg"))
        return 1
    if consumer == "field":
        q = ObjectType("Query", [Field("f", Int, args=[Argument("x", at, **kw), Argument("d", Int, default_value=5)], resolver=resolver)])
        schema = Schema(q)
    else:
        q = ObjectType("Query", [Field("f", Int, resolver=resolver)])
        schema = Schema(q, directives=[Directive("cfg", ["FIELD"], args=[Argument("x", at, **kw), Argument("d", Int, default_value=5)])])
    vdl, vdc = VAR_DEFAULT_LITERAL[tname]
    var_type = tname + ("" if var_is_nullable(nonnull, adef, supply) else "!")
    decl = ""
    if supply.startswith("var"):
        decl = "query ($v: %s%s) " % (var_type, (" = " + vdl) if supply.endswith("vdefault") else (" = null" if supply.endswith("vdefault-null") else ""))
    args = {"omitted": "", "literal": "(x: %s)" % lit, "literal-null": "(x: null)"}.get(supply, "(x: $v)")
    variables = {}
    if supply in ("var-value", "var-value-vdefault"):
        variables = {"v": js}
    elif supply in ("var-null", "var-null-vdefault"):
        variables = {"v": None}
    text = decl + ("{ f%s }" % args if consumer == "field" else "{ f @cfg%s }" % args)
    res = graphql_blocking(schema, text, variables=variables)
    return seen, res, text, (coerced, adefault, vdc)


def _argument_matrix(fam: int, nonnull: bool, adef: int, pyname: bool, supply: int, consumer: bool) -> bool:
    """
    pre: 0 <= fam < len(FAMILIES) and 0 <= adef < 3 and 0 <= supply < len(SUPPLIES)
    pre: shard_of(fam * 3 + adef)
    post: _
    """
    F = concrete_int(fam, 0, len(FAMILIES) - 1)
    NNL = True if nonnull else False
    AD = pick(adef, ARG_DEFAULTS)
    PY = True if pyname else False
    SU = pick(supply, SUPPLIES)
    CO = "directive" if consumer else "field"
    if AD == "null" and NNL:
        return result(True, False)           # a null default for a non-null argument is not a valid schema
    with untraced():
        seen, res, text, (coerced, adefault, vdc) = run_matrix(F, NNL, AD, PY, SU, CO)
        key = "x_py" if PY else "x"
        if NNL and SU == "literal-null" or (SU == "var-null" and not var_is_nullable(NNL, AD, SU)):
            # null literal / null for a non-null variable: rejected before execution (validation / variable coercion)
            ok = seen == [] and bool(res.errors)
            return result(ok, True)
        if not position_allowed(NNL, AD, SU):
            ok = seen == [] and bool(res.errors)
            return result(ok, False)
        exp = spec_argument(NNL, AD, adefault, SU, coerced, vdc)
        if exp[0] == "error":
            ok = seen == [] and bool(res.errors)
        else:
            kwargs = {"d": 5}
            if exp[0] == "value":
                kwargs[key] = exp[1]
            ok = seen == [kwargs] and not res.errors
    return result(ok, exp[0] != "error")


# ------------------------------------------------------------------ variables INSIDE object / list literals
#  (argument type, literal with $v, kind of the position, the position declares a default)
NESTED_POSITIONS = (
    ("In", "{req: 1, opt: $v}", ("field", "opt", False, False)), ("In", "{req: 1, dflt: $v}", ("field", "dflt", False, True)), ("In", "{req: $v}", ("field", "req", True, False)),
    ("[Int]", "[1, $v]", ("item", None, False, False)), ("[Int!]", "[1, $v]", ("item", None, True, False)),
    ("In", "{req: 1, self: {req: 2, opt: $v}}", ("nested-field", "opt", False, False)), ("[In]", "[{req: $v}]", ("item-field", "req", True, False)),
    # (appended) deeper list positions: item of an inner list, item of a list inside an object literal, the only item of a non-null list
    ("[[Int!]]", "[[1], [$v]]", ("item2", None, True, False)), ("[[Int]]", "[[1], [$v]]", ("item2", None, False, False)),
    ("Box", "{xs: [$v, 2]}", ("box-item", "xs", True, False)), ("Box", "{ys: [$v, 2]}", ("box-item", "ys", False, False)),
    ("[Int!]!", "[$v]", ("item-only", None, True, False)),
)
NESTED_SUPPLIES = ("value", "null", "omitted", "omitted-vdefault", "value-vdefault", "null-vdefault")


def _nested_variables(pos: int, supply: int, var_nonnull: bool) -> bool:
    """
    pre: 0 <= pos < len(NESTED_POSITIONS) and 0 <= supply < len(NESTED_SUPPLIES)
    post: _
    """
    at, lit, (kind, fname, pos_nonnull, pos_default) = pick(pos, NESTED_POSITIONS)
    SU = pick(supply, NESTED_SUPPLIES)
    VNN = True if var_nonnull else False
    if VNN and "vdefault" in SU:
        return result(True, False)
    with untraced():
        decl = "$v: Int%s%s" % ("!" if VNN else "", " = 9" if "vdefault" in SU else "")
        variables = {"value": {"v": 4}, "null": {"v": None}, "omitted": {}, "omitted-vdefault": {}, "value-vdefault": {"v": 4}, "null-vdefault": {"v": None}}[SU]
        calls, res = run_request(at, "query (%s) { f(x: %s) }" % (decl, lit), variables)
        # ---- oracle: spec 5.8.5 (position), 6.1.2 (variables), 3.x literal coercion with variables (graphql reference: valueFromAST)
        allowed = not (pos_nonnull and not VNN and not ("vdefault" in SU or pos_default))
        if not allowed or (VNN and SU in ("null", "omitted")):
            return result(calls == [] and bool(res.errors), False)
        present = SU != "omitted"
        value = {"value": 4, "null": None, "omitted-vdefault": 9, "value-vdefault": 4, "null-vdefault": None}.get(SU)   # an explicit null wins over the variable default (6.1.2)
        if known.c07_omitted_variable_in_literal(present):
            return result(True, False)
        error = False
        if kind in ("field", "nested-field", "item-field"):
            if not present:
                inner = {"dflt": 7} if fname == "dflt" else {}
                error = pos_nonnull
            else:
                error = pos_nonnull and value is None
                inner = {fname: value}
            base = {"req": 1, "dflt": 7, "col": "blue"}
            if kind == "field":
                exp = dict(base, **inner)
            elif kind == "nested-field":
                exp = dict(base, self=dict({"req": 2, "dflt": 7, "col": "blue"}, **inner))
            else:
                exp = [dict({"dflt": 7, "col": "blue"}, **inner)]
        else:
            item = value if present else None
            error = pos_nonnull and item is None
            exp = {"item": [1, item], "item2": [[1], [item]], "box-item": {fname: [item, 2]}, "item-only": [item]}[kind]
        if error:
            ok = calls == [] and bool(res.errors)
        else:
            ok = calls == [{"d": 5, "x": exp}] and not res.errors
    return result(ok, not error)


# ------------------------------------------------------------------ one selection node, several runtime object types
def _per_type_arguments(order: int, supply: int, via: int) -> bool:
    """
    pre: 0 <= order <= 2 and 0 <= supply <= 3 and 0 <= via <= 2
    post: _
    """
    O, SU, V = concrete_int(order, 0, 2), concrete_int(supply, 0, 3), concrete_int(via, 0, 2)
    with untraced():
        from py_gql.schema import InterfaceType
        unit = EnumType("Unit", [EnumValue("METER", "m"), EnumValue("FOOT", "ft")])
        seen = []

        def rec(tag):
            def r(root, ctx, info, **kw):
                seen.append((tag, kw))
                return 1
            return r
        shape = InterfaceType("Shape", [Field("size", Int, args=[Argument("unit", unit, default_value="m"), Argument("scale", Int)])], resolve_type=lambda v, *_: v["t"])
        square = ObjectType("Square", [Field("size", Int, args=[Argument("unit", unit, default_value="ft", python_name="u"), Argument("scale", Int, default_value=3)], resolver=rec("Square"))],
                            interfaces=[shape])
        circle = ObjectType("Circle", [Field("size", Int, args=[Argument("unit", unit, default_value="m"), Argument("scale", Int), Argument("extra", Int, default_value=9)], resolver=rec("Circle"))],
                            interfaces=[shape])
        q = ObjectType("Query", [Field("shapes", ListType(shape))])
        schema = Schema(q, types=[square, circle])
        items = ([{"t": "Square"}, {"t": "Circle"}], [{"t": "Circle"}, {"t": "Square"}], [{"t": "Circle"}, {"t": "Square"}, {"t": "Circle"}, {"t": "Square"}])[O]
        args = ("", "(scale: 5)", "(unit: FOOT)", "(scale: $s)")[SU]
        sel = ("size%s" % args, "...F", "... on Shape { size%s }" % args)[V]
        text = "query %s{ shapes { %s } }%s" % ("($s: Int) " if SU == 3 else "", sel, (" fragment F on Shape { size%s }" % args) if V == 1 else "")
        res = graphql_blocking(schema, text, variables={"s": 8} if SU == 3 else {}, root={"shapes": items})
        given = {0: {}, 1: {"scale": 5}, 2: {"unit": "ft"}, 3: {"scale": 8}}[SU]

        def expected(t):
            if t == "Square":
                out = {"u": "ft", "scale": 3}
                out.update({("u" if k == "unit" else k): v for k, v in given.items()})
            else:
                out = {"unit": "m", "extra": 9}
                out.update(given)
            return (t, out)
        ok = not res.errors and seen == [expected(i["t"]) for i in items]
    return result(ok, True)


# ---- whole-number FLOATS for Int positions through variables (JSON decoders produce them for 3e9 or 2147483648.0)
FLOAT_VALUES = (5.0, -0.0, 2147483647.0, 2147483648.0, -2147483648.0, -2147483649.0, 3e9, 1e20, -1e20, 1.5, 2147483647.5, 4294967296.0)
FLOAT_POSITIONS = (("Int", "$v", lambda v: v), ("Int!", "$v", lambda v: v), ("[Int]", "$v", lambda v: [1, v]), ("[Int!]", "$v", lambda v: [v]), ("In", "$v", lambda v: {"req": v}),
                   ("Int", "{req: $v}", lambda v: v), ("Int", "[1, $v]", lambda v: v), ("[[Int]]", "$v", lambda v: [[v]]))


def _ints_in(x, out):
    if isinstance(x, dict):
        for y in x.values():
            _ints_in(y, out)
    elif isinstance(x, (list, tuple)):
        for y in x:
            _ints_in(y, out)
    elif x is not None:
        out.append(x)
    return out


def _int_whole_floats(fv: int, pos: int) -> bool:
    """
    pre: 0 <= fv < len(FLOAT_VALUES) and 0 <= pos < len(FLOAT_POSITIONS)
    post: _
    """
    V, (t, use, wrap) = pick(fv, FLOAT_VALUES), pick(pos, FLOAT_POSITIONS)
    with untraced():
        world = make_world()
        calls = []

        def resolver(root, ctx, info, **kw):
            calls.append(kw)
            return 1
        argt = {"{req: $v}": "In", "[1, $v]": "[Int]"}.get(use, t)
        q = ObjectType("Query", [Field("f", Int, args=[Argument("x", parse_texpr(world, argt))], resolver=resolver)])
        res = graphql_blocking(Schema(q), "query ($v: %s) { f(x: %s) }" % (t, use), variables={"v": wrap(V)})
        inrange = V == int(V) and -2147483648 <= V <= 2147483647
        if not inrange:
            # a fractional or out-of-range number never reaches a resolver at an Int position: the request is refused
            ok = calls == [] and bool(res.errors)
        else:
            # the specification lets a server accept a whole-number float for Int; if it does, what arrives is that integer
            got = [g for g in _ints_in([({"req": c["x"].get("req")} if isinstance(c.get("x"), dict) else c) for c in calls], []) if g != 1 or V == 1.0]
            ok = (calls == [] and bool(res.errors)) or (all(type(g) is int and -2147483648 <= g <= 2147483647 for g in got) and got == [int(V)])
    return result(ok, not inrange)


CONDITIONS = [
    Cond(
        name="int_whole_floats", fn=_int_whole_floats, quick=60, thorough=60,
        bound="%d float values (whole numbers inside, at and outside the signed 32-bit edges, 3e9, 1e20, fractional) given through a VARIABLE x %d Int positions (variable itself, list item, nested list item, "
              "input-object field, variable inside an object / list literal): outside the range or fractional -> the request is refused and no resolver runs; a whole number in range -> refused, or "
              "delivered as that integer" % (len(FLOAT_VALUES), len(FLOAT_POSITIONS)),
        symbolic={"fv,pos": "choice"}, assumptions=["oracle: spec 3.5.1 input coercion of Int (a server MAY accept whole-number floats in range)"], witness={"fv": 3, "pos": 0},
    ),
    Cond(
        name="nullable_var_nonnull_arg", fn=_nullable_var_nonnull_arg, quick=60, thorough=60,
        bound="non-null argument fed by a nullable variable that declares a non-null default (allowed by the spec's variable-position rule): variable omitted / explicit null / value, 4 type families",
        symbolic={"c": "choice: type family", "supply": "choice: omitted/null/value"}, witness={"c": 0, "supply": 2},
    ),
    Cond(
        name="routes", fn=_routes, quick=120, thorough=300, per_path=60, shards_quick=16, shards_thorough=16,
        bound="%d (type expression, value) cases over %d type expressions (wrappers <= 3 over Int/String/Boolean/ID/enum with internal values/recursive input object with required, optional, defaulted, python_name fields): "
              "value given inline and through a variable (with/without a declared default)" % (N_CASES, len(TYPE_EXPRS)),
        symbolic={"case": "choice: index into the generated case table", "default_var": "choice: variable declares '= null'"},
        assumptions=["oracle: spec input coercion (sections 3.5-3.10, 6.4.1) transcribed in spec_coerce", "resolver kwargs observed by a recording resolver through graphql_blocking"],
        witness={"case": 1, "default_var": False},
    ),
    Cond(
        name="argument_matrix", fn=_argument_matrix, quick=120, thorough=300, per_path=60, shards_quick=15, shards_thorough=15,
        bound="CoerceArgumentValues as a full product: %d type families x nullable/non-null argument x argument default (none/value/null) x python_name (same/different) x %d ways of supplying the value "
              "(omitted, literal, literal null, variable given / null / omitted, each with and without a variable default, default null) x consumer (field argument seen by the resolver, directive argument seen through "
              "info.get_directive_arguments): resolver kwargs equal spec 6.4.1 keyed by python_name, rejected cases never reach the resolver" % (len(FAMILIES), len(SUPPLIES)),
        symbolic={"fam,nonnull,adef,pyname,supply,consumer": "choice"},
        assumptions=["oracle: spec 6.4.1 CoerceArgumentValues + 5.8.5 IsVariableUsageAllowed transcribed in spec_argument / position_allowed"],
        witness={"fam": 0, "nonnull": False, "adef": 1, "pyname": True, "supply": 5, "consumer": False},
    ),
    Cond(
        name="nested_variables", fn=_nested_variables, quick=60, thorough=60,
        bound="a variable used INSIDE a literal: 12 positions (optional / defaulted / required input-object field, item of [Int] and [Int!], field of a nested object, field of an object in a list, item of an inner list, "
              "item of a list inside an object literal, only item of [Int!]!) x 6 supplies (value, null, omitted, omitted with a variable default, value with a variable default, explicit null with a variable default) x nullable / non-null variable: resolver kwargs equal the specification's literal coercion "
              "(a variable without a runtime value = absent field / null item)",
        symbolic={"pos,supply,var_nonnull": "choice"}, assumptions=["oracle: spec 3.x literal input coercion with variables, 5.8.5, 6.1.2"],
        witness={"pos": 0, "supply": 0, "var_nonnull": False},
    ),
    Cond(
        name="per_type_arguments", fn=_per_type_arguments, quick=60, thorough=60,
        bound="ONE field node (directly, through a named fragment, through an inline fragment on the interface) executed for list items of two object types whose definitions of the field differ in argument "
              "default, python_name and an extra defaulted argument x 3 item orders x 4 supplies (none, literal, enum literal, variable): every resolver receives the arguments of ITS OWN field definition",
        symbolic={"order,supply,via": "choice"}, witness={"order": 0, "supply": 0, "via": 0},
    ),
    Cond(
        name="int_variable", fn=_int_variable, quick=30, thorough=120,
        bound="v: every int with |v| <= 10**12 (z3 Int; the bound only limits the digit-count forks of the error message formatting)",
        symbolic={"v": "data: the variable value"},
        witness={"v": 7},
    ),
]
