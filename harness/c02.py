"""C02 - parsed trees mirror the source: structure, decoded values and spans."""
from vf import known  # noqa: F401
from vf.spec import Cond, result, untraced, shard_of, thorough, concrete_int  # noqa: F401

from oracles import ref_lexer as R
from py_gql._string_utils import parse_block_string

BLOCK_N = 4 if thorough() else 3


def lexable_in_block(raw) -> bool:
    for c in raw:
        if not (c >= " " or c == "\t" or c == "\n" or c == "\r"):
            return False
    return True


def _block_value(raw: str) -> bool:
    """
    pre: len(raw) <= BLOCK_N
    pre: lexable_in_block(raw)
    post: _
    """
    got = parse_block_string(raw)
    exp = R.block_string_value(raw)
    return result(got == exp, reached=len(exp) > 0)


CONDITIONS = [
    Cond(
        name="block_value", fn=_block_value, quick=90, thorough=900, per_path=30,
        bound="every raw block-string content of <= 3 source characters", bound_thorough="... <= 4 source characters",
        symbolic={"raw": "data: raw block string content (after \\\"\"\" unescaping)"},
        assumptions=["oracle: BlockStringValue() transcribed from spec 2.9.4 (oracles/ref_lexer.block_string_value)"],
        witness={"raw": "\n a"},
    ),
]
