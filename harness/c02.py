"""C02 - parsed trees mirror the source: structure, decoded values and spans."""
from vf import known  # noqa: F401
from vf.spec import Cond, result, untraced, shard_of, thorough, concrete_int  # noqa: F401

from oracles import ref_lexer as R
from py_gql._string_utils import parse_block_string

BLOCK_N = 4 if thorough() else 3


def lexable_in_block(raw) -> bool:
    for c in raw:
        if not (c >= " " or c == "\t" or c == "\n" or c == "\r"):
            return False
    return True


def _block_value(raw: str) -> bool:
    """
    pre: len(raw) <= BLOCK_N
    pre: lexable_in_block(raw)
    post: _
    """
    got = parse_block_string(raw)
    exp = R.block_string_value(raw)
    return result(got == exp, reached=len(exp) > 0)


# ------------------------------------------------------------------ spans
from py_gql.lang import ast as A, parse  # noqa: E402
from py_gql.lang.parser import parse_type, parse_value  # noqa: E402
from vf.spec import pick  # noqa: E402

GAPS = (" ", "", ",", "\n", "\t", "\r\n", "#c\n", "\ufeff", " , ", "\r", "#c\r", "# c \r\n", "#\n", "\n\r")       # comments ended by CR / CRLF / at once; LF CR

SPAN_SOURCES = (
    ("document", 'query Q($a: [Int!]! = [1, -2.5e3] @d, $b: T) @d1(a: 1, b: $a) { al: f(x: 1.5, y: "s\\n", z: {k: [true, null, E, $b], j: {}}) @d { g ...F @d ... on T @d { h } ... { i } } j } '
                 'fragment F on T @d { k } mutation { m(s: """b\n  c""") } { n }'),
    ("document_ts", 'schema @d { query: Q mutation: M } "sd" scalar S1 @d """od""" type O implements I & J @d { "fd" f("ad" a: [Int!]! = [1] @d, b: Int): [T!]! @d g: T } '
                    'extend type O implements K @d { i: Int } interface I @d { f: Int } union U @d = | A | B extend union U = C enum E @d { "vd" X @d Y } '
                    'input In @d { a: Int = 1 @d b: [In] } directive @x(a: Int = 1, b: Int) on FIELD | QUERY extend schema @d extend scalar S1 @d'),
    ("document_fragvars", "fragment F($fv: Int = 3 @d) on T { k ...G } { a }"),
)


from oracles import grammar as GR  # noqa: E402

N_RICH = len(SPAN_SOURCES)
# plus one witness text per expanded production alternative of the grammar (all combinations of optional parts)
SPAN_SOURCES = SPAN_SOURCES + tuple((e if e in ("value", "type") else "document_ts_fragvars", t) for e, t in GR.sentence_texts())
# (appended) wrappers and brackets NESTED several deep: list types inside list types, lists in lists in objects, selection sets in selection sets
SPAN_SOURCES = SPAN_SOURCES + (
    ("type", "[[T!]]!"), ("type", "[[[T]!]]"), ("type", "[[[[T!]!]!]!]!"),
    ("value", "[[1, [2, []]], [[[]]], {a: {b: {c: [[{d: 1}]]}}}]"),
    ("document_ts_fragvars", "type O { f(a: [[Int!]!]! = [[1], []]): [[T]] g: [[[T!]]!] } input In { m: [[[In!]]] = [[[{m: []}]]] } directive @x(a: [[Int]]) on FIELD"),
    ("document_ts_fragvars", "query ($m: [[Int]!]! = [[1], []]) { f(x: [[{a: [[1]]}]]) { g { h { i(y: [[$m]]) } } } } fragment F($v: [[T!]] = [[]]) on T { a { b { c } } }"),
)
# (appended) the SAME name / keyword-like token at several places of one document (directive locations shared by definitions and repeated inside one, one name for
# every field, alias, argument, variable, directive, fragment and type): a node built for the first occurrence must not stand in for a later one
SPAN_SOURCES = SPAN_SOURCES + (
    ("document_ts_fragvars", "directive @a on FIELD | QUERY directive @b(x: Int) on QUERY | FIELD | FIELD directive @c on FIELD type T { f: T f2: T } union U = T | T enum E { V W } extend union U = T"),
    ("document_ts_fragvars", "query a($a: a = a @a) { a a { a a: a(a: a, a: $a) @a(a: $a) @a } ...a ... on a { a } } fragment a on a { a }"),
)


def span_tokens(text):
    return [(k, a, b, text[a:b]) for (k, a, b, v) in R.tokens(text)]


_SPAN_TOKENS = [span_tokens(t) for _, t in SPAN_SOURCES]


def needs_space(prev, nxt):
    pk, nk = prev[0], nxt[0]
    wordy = ("Name", "Int", "Float")
    if pk in wordy and nk in wordy:
        return True
    if pk in ("Int", "Float") and nxt[3] == "...":
        return True
    if pk in ("String", "BlockString") and nk in ("String", "BlockString"):
        return True
    return False


def render_with_gaps(tokens, gap, every, offset, width, lead):
    """-> (text, [(start, end)] per token)"""
    out, spans = lead, []
    for i, t in enumerate(tokens):
        if i > 0:
            g = (gap * width) if (i % every == offset) else " "
            if g.strip(" \t\n\r,\ufeff") == "" and g.replace("\ufeff", "").replace(",", "x") == "" and needs_space(tokens[i - 1], t):
                g = " "
            if g == "" and needs_space(tokens[i - 1], t):
                g = " "
            if "\ufeff" in g and g.replace("\ufeff", "") == "" and needs_space(tokens[i - 1], t):
                g = g + " "
            out += g
        spans.append((len(out), len(out) + len(t[3])))
        out += t[3]
    return out, spans


def parse_entry(entry, text, **kw):
    if entry == "value":
        return parse_value(text, **kw)
    if entry == "type":
        return parse_type(text, **kw)
    return parse(text, allow_type_system="_ts" in entry, experimental_fragment_variables="fragvars" in entry, **kw)


def nodes_of(node, out):
    out.append(node)
    for slot in getattr(node, "__slots__", ()):
        if slot in ("source", "loc"):
            continue
        v = getattr(node, slot, None)
        if isinstance(v, A.Node):
            nodes_of(v, out)
        elif isinstance(v, list):
            for x in v:
                if isinstance(x, A.Node):
                    nodes_of(x, out)
    return out


def strip_loc(d):
    if isinstance(d, dict):
        return {k: strip_loc(v) for k, v in d.items() if k != "loc"}
    if isinstance(d, list):
        return [strip_loc(x) for x in d]
    return d


def reparse_span(entry, node, text):
    """the spanned text parses back to an equal node (for the kinds with a standalone or wrappable syntax); None = not applicable"""
    a, b = node.loc
    span = text[a:b]
    try:
        if isinstance(node, (A.Value, A.Variable)) and not isinstance(node, A.ObjectField):
            back = parse_value(span)
        elif isinstance(node, A.Type):
            back = parse_type(span)
        elif isinstance(node, (A.Field, A.FragmentSpread, A.InlineFragment)):
            back = parse("{ " + span + " }").definitions[0].selection_set.selections[0]
        elif isinstance(node, A.SelectionSet):
            back = parse(span).definitions[0].selection_set
        elif isinstance(node, A.Definition):
            back = parse_entry("document_ts_fragvars", span).definitions[0]
        elif isinstance(node, A.Document):
            back = parse_entry("document_ts_fragvars", span)
        elif isinstance(node, A.VariableDefinition):
            back = parse("query (" + span + ") { a }").definitions[0].variable_definitions[0]
        elif isinstance(node, A.Argument):
            back = parse("{ a(" + span + ") }").definitions[0].selection_set.selections[0].arguments[0]
        elif isinstance(node, A.Directive):
            back = parse("{ a " + span + " }").definitions[0].selection_set.selections[0].directives[0]
        elif isinstance(node, A.ObjectField):
            back = parse_value("{" + span + "}").fields[0]
        elif isinstance(node, A.FieldDefinition):
            back = parse_entry("document_ts", "type T { " + span + " }").definitions[0].fields[0]
        elif isinstance(node, A.InputValueDefinition):
            back = parse_entry("document_ts", "input T { " + span + " }").definitions[0].fields[0]
        elif isinstance(node, A.EnumValueDefinition):
            back = parse_entry("document_ts", "enum T { " + span + " }").definitions[0].values[0]
        elif isinstance(node, A.OperationTypeDefinition):
            back = parse_entry("document_ts", "schema { " + span + " }").definitions[0].operation_types[0]
        elif isinstance(node, A.Name):
            back = parse("{ " + span + " }").definitions[0].selection_set.selections[0].name
        else:
            return None
    except Exception:  # noqa
        return False
    return strip_loc(back.to_dict()) == strip_loc(node.to_dict())


def _spans(src: int, gap: int, every: int, offset: int, width: int, lead: int, noloc: bool) -> bool:
    """
    pre: 0 <= src < len(SPAN_SOURCES) and 0 <= gap < len(GAPS) and 1 <= every <= 3 and 0 <= offset < every and 1 <= width <= 2 and 0 <= lead <= 2
    pre: shard_of(gap)
    pre: src < N_RICH or (every == 1 and width == 1 and lead == 0)
    post: _
    """
    entry, canonical = pick(src, SPAN_SOURCES)
    toks = _SPAN_TOKENS[concrete_int(src, 0, len(SPAN_SOURCES) - 1)]
    G, E, O, W = pick(gap, GAPS), concrete_int(every, 1, 3), concrete_int(offset, 0, 2), concrete_int(width, 1, 2)
    LEAD = ("", " \n", "\ufeff#x\n")[concrete_int(lead, 0, 2)]
    NL = True if noloc else False
    with untraced():
        text, spans = render_with_gaps(toks, G, E, O, W, LEAD)
        base_text, base_spans = render_with_gaps(toks, " ", 1, 0, 1, "")
        base = parse_entry(entry, base_text)
        tree = parse_entry(entry, text, no_location=NL)
        ok = strip_loc(tree.to_dict()) == strip_loc(base.to_dict())
        base_nodes, nodes = nodes_of(base, []), nodes_of(tree, [])
        ok = ok and len(base_nodes) == len(nodes)
        starts = {a: i for i, (a, b) in enumerate(base_spans)}
        ends = {b: i for i, (a, b) in enumerate(base_spans)}
        if ok:
            for bn, n in zip(base_nodes, nodes):
                if n.source is not text and n.source != text:
                    ok = False
                    break
                if NL:
                    if n.loc is not None:
                        ok = False
                        break
                    continue
                if isinstance(bn, A.Document):
                    # SOF .. EOF
                    if tuple(n.loc) != (0, len(text)):
                        ok = False
                        break
                    continue
                ba, bb = bn.loc
                if ba not in starts or bb not in ends:
                    ok = False          # a span must begin at a token start and end at a token end
                    break
                i, j = starts[ba], ends[bb]
                if tuple(n.loc) != (spans[i][0], spans[j][1]):
                    ok = False          # same token range, whatever the ignorable characters in between
                    break
                r = reparse_span(entry, n, text)
                if r is False or r is None:
                    ok = False          # every node kind has a re-parse context; None would mean an unknown kind
                    break
                # children lie inside their parent
                for child in nodes_of(n, [])[1:]:
                    if not (n.loc[0] <= child.loc[0] and child.loc[1] <= n.loc[1]):
                        ok = False
                        break
                if not ok:
                    break
    return result(ok, True)


BLOCK_SHAPES = (("\n  a\n", "\n  b"), ("a\n   ", "\n   b"), ("\n      Hello,\n", "\n      World!\n    "), ("  ", "\n  b"), ("a\n\t", "\n\tb\n"),
                ("\n\n  a", "\n\n"), ("a\r\n  ", "\r  b"), ("  a\n", "b"))
SHAPED_N = 3 if thorough() else 2


def _block_shaped(p: int, t: str) -> bool:
    """
    pre: 0 <= p < len(BLOCK_SHAPES) and len(t) <= SHAPED_N
    pre: shard_of(p)
    pre: lexable_in_block(t)
    post: _
    """
    i = concrete_int(p, 0, len(BLOCK_SHAPES) - 1)
    raw = BLOCK_SHAPES[i][0] + t + BLOCK_SHAPES[i][1]
    got = parse_block_string(raw)
    exp = R.block_string_value(raw)
    return result(got == exp, len(t) > 0)


# ------------------------------------------------------------------ decoded values of quoted strings (escape sequences)
from py_gql.exc import GraphQLSyntaxError  # noqa: E402

# prefix (inside the quotes), suffix, max symbolic length quick / thorough
STRING_SHAPES = [
    ("", "", 2, 3), ("\\", "", 2, 3), ("\\u", "", 2, 4), ("\\u00", "", 2, 3), ("a\\", "b", 1, 2),
    ("\\\\u00", "", 2, 2),          # an escaped backslash followed by uXXXX is NOT a unicode escape
    ("\\\\", "u0041", 1, 2), ("\\\\", "", 2, 3), ("\\\\\\", "", 2, 3), ("\\\"\\", "", 1, 2), ("\\\\", "n", 1, 2), ("\\u005C", "", 1, 2),
]


def string_shape_ok(p, t) -> bool:
    i = concrete_int(p, 0, len(STRING_SHAPES) - 1)
    return len(t) <= STRING_SHAPES[i][3 if thorough() else 2]


def _string_value(p: int, t: str) -> bool:
    """
    pre: 0 <= p < len(STRING_SHAPES)
    pre: shard_of(p)
    pre: string_shape_ok(p, t)
    post: _
    """
    i = concrete_int(p, 0, len(STRING_SHAPES) - 1)
    src = '"' + STRING_SHAPES[i][0] + t + STRING_SHAPES[i][1] + '"'
    # reference: the lexical grammar's StringValue with the specification's escape table
    try:
        ref = R.tokens(src)
    except R.RefSyntaxError:
        ref = None
    except R.DontCare:
        return result(True, False)
    # (whatever follows the closing quote must be ignorable: a comment, commas, blanks - the reference lexer drops those)
    wanted = ref is not None and len(ref) == 1 and ref[0][0] == "String" and ref[0][1] == 0
    try:
        node = parse_value(src)
    except GraphQLSyntaxError:
        return result(not wanted, False)
    if not wanted:
        return result(False, True)
    ok = type(node) is A.StringValue and (not node.block) and node.value == ref[0][3] and node.loc == (0, ref[0][2])
    return result(ok, True)


CONDITIONS = [
    Cond(
        name="string_value", fn=_string_value, quick=90, thorough=600, per_path=30, shards_quick=len(STRING_SHAPES), shards_thorough=len(STRING_SHAPES),
        bound="quoted strings '\"' + prefix + t + suffix + '\"' for the %d shapes in STRING_SHAPES (plain, after a backslash, inside a \\u escape, after an ESCAPED backslash followed by text that looks like an escape) with "
              "symbolic t (len <= 1..4 per shape): parse_value gives a StringValue whose value is the reference decoding (specification escape table) and whose span is the whole text, or a syntax error exactly when the reference rejects" % len(STRING_SHAPES),
        symbolic={"p": "choice: shape", "t": "data: symbolic middle of the string"},
        assumptions=["oracle: oracles/ref_lexer.py (StringCharacter / EscapedUnicode / EscapedCharacter)", "int(str, 16) on a symbolic all-hex string is modelled arithmetically (vf/chfix.py)"],
        witness={"p": 5, "t": "41"},
    ),
    Cond(
        name="block_shaped", fn=_block_shaped, quick=300, thorough=900, per_path=30, shards_quick=len(BLOCK_SHAPES), shards_thorough=len(BLOCK_SHAPES),
        bound="raw block-string content prefix + t + suffix for %d multi-line layouts (indented text lines around the symbolic part, CRLF/CR breaks, tabs, leading/trailing blank lines) with symbolic t of <= 2 (thorough 3) characters" % len(BLOCK_SHAPES),
        symbolic={"p": "choice: layout", "t": "data: symbolic middle"}, assumptions=["oracle: BlockStringValue()"], witness={"p": 0, "t": " "},
    ),
    Cond(
        name="spans", fn=_spans, quick=150, thorough=400, per_path=60, shards_quick=10, shards_thorough=10,
        bound="3 rich documents covering every node kind (plus, with one gap string everywhere, one witness text per expanded production alternative of the grammar) x 14 ignorable gap strings (space, nothing, comma, LF, tab, CRLF, comment ended by LF / CR / CRLF, empty comment, BOM, ' , ', CR, LF CR) placed at every 1st/2nd/3rd token boundary x width 1..2 x 3 leading prefixes x no_location: "
              "same tree as the single-space spelling, every span = (start of the node's first token, end of its last token) computed by the generator's offset arithmetic, Document = (0, len), the spanned text parses back to an equal node, loc None when disabled",
        symbolic={"src": "choice", "gap,every,offset,width,lead": "choice: where which ignorable characters go", "noloc": "choice"},
        assumptions=["token boundaries from the reference lexer; the token range of a node is taken from the single-space spelling and validated by re-parsing the spanned text"],
        witness={"src": 0, "gap": 0, "every": 1, "offset": 0, "width": 1, "lead": 0, "noloc": False},
    ),
    Cond(
        name="block_value", fn=_block_value, quick=90, thorough=900, per_path=30,
        bound="every raw block-string content of <= 3 source characters", bound_thorough="... <= 4 source characters",
        symbolic={"raw": "data: raw block string content (after \\\"\"\" unescaping)"},
        assumptions=["oracle: BlockStringValue() transcribed from spec 2.9.4 (oracles/ref_lexer.block_string_value)"],
        witness={"raw": "\n a"},
    ),
]
