"""C01 - the parser accepts exactly the GraphQL grammar and fails only with syntax errors."""
from vf import known  # noqa: F401
from vf.spec import Cond, result, untraced, shard_of, thorough, concrete_int, pick  # noqa: F401

from oracles import ref_lexer as R
from py_gql.exc import GraphQLSyntaxError
from py_gql.lang.lexer import Lexer
from py_gql.lang import token as T

LEX_N = 3 if thorough() else 2

_KIND = {T.Name: "Name", T.Integer: "Int", T.Float: "Float", T.String: "String", T.BlockString: "BlockString"}


def real_tokens(s):
    """list(Lexer(s)) mapped to (kind, start, end, value); ('error', position) on a syntax error.
    Any other exception propagates (and is a violation: 'never with any other exception')."""
    out = []
    try:
        for tok in Lexer(s):
            k = type(tok)
            if k is T.SOF or k is T.EOF:
                continue
            kind = _KIND.get(k, "Punct")
            out.append((kind, tok.start, tok.end, tok.value))
    except GraphQLSyntaxError as err:
        return ("error", err.position)
    return ("ok", out)


def ref_tokens(s):
    try:
        return ("ok", R.tokens(s))
    except R.RefSyntaxError as e:
        return ("error", e.position)
    except R.DontCare:
        return ("dontcare", None)


def lex_class(s) -> int:
    if len(s) == 0:
        return 0
    c = s[0]
    o = ord(c)
    if o == 0x20 or o == 9 or o == 10 or o == 13 or o == 0x2C or o == 0xFEFF:
        return 0
    if o < 0x20:
        return 9
    if o >= 0x80:
        return 11
    if c == '"':
        return 1
    if c == "#":
        return 2
    if c == "-":
        return 3
    if c == "0":
        return 4
    if "1" <= c <= "9":
        return 5
    if c == "_" or "a" <= c <= "z" or "A" <= c <= "Z":
        return 6
    if c == ".":
        return 7
    if c in "!$()[]{}:=@|&":
        return 8
    return 10


def lex_agree(s):
    real = real_tokens(s)
    ref = ref_tokens(s)
    if ref[0] == "dontcare":
        return True, False
    if real[0] == "error":
        ok = ref[0] == "error" and (0 <= real[1] <= len(s) or known.c01_pos_past_truncated_escape(s, real[1]))
        return ok, True
    return (ref[0] == "ok" and real[1] == ref[1]), len(real[1]) > 0


def _lex_generic(s: str) -> bool:
    """
    pre: len(s) <= LEX_N
    pre: shard_of(lex_class(s))
    post: _
    """
    ok, reached = lex_agree(s)
    return result(ok, reached)


# ---------------------------------------------------------------------------------------------
# token level: the real Parser on a stub lexer that hands out solver-chosen tokens lazily
from oracles import grammar as G  # noqa: E402
import py_gql.lang.parser as P  # noqa: E402
from vf.spec import retraced  # noqa: E402

_PUNCT = {"!": T.ExclamationMark, "$": T.Dollar, "(": T.ParenOpen, ")": T.ParenClose, "[": T.BracketOpen,
          "]": T.BracketClose, "{": T.CurlyOpen, "}": T.CurlyClose, ":": T.Colon, "=": T.Equals, "@": T.At,
          "|": T.Pipe, "&": T.Ampersand, "...": T.Ellip}

EXEC_ALPHABET = (
    [("Punct", c) for c in ("{", "}", "(", ")", "[", "]", ":", "=", "@", "$", "!", "...", "|", "&")]
    + [("Name", v) for v in ("a", "on", "query", "mutation", "fragment", "true", "null", "type")]
    + [("Int", "1"), ("Float", "1.5"), ("String", "s"), ("String", "on"), ("BlockString", "b"), ("String", "query")]
)
TS_ALPHABET = EXEC_ALPHABET + [("Name", v) for v in (
    "schema", "scalar", "interface", "union", "enum", "input", "directive", "extend", "implements", "subscription",
    "false", "QUERY", "FIELD_DEFINITION", "VARIABLE_DEFINITION")] + [("String", "implements"), ("String", "extend"), ("String", "schema")]


def make_token(tok, i):
    kind, value = tok
    if kind == "Punct":
        return _PUNCT[value](i, i + 1)
    cls = {"Name": T.Name, "Int": T.Integer, "Float": T.Float, "String": T.String, "BlockString": T.BlockString}[kind]
    return cls(i, i + 1, value)


class StubSource(str):
    """what the harness passes as `source`; carries the token supplier"""
    supplier = None


class StubLexer:
    """Drop-in for py_gql.lang.lexer.Lexer inside py_gql.lang.parser: same attributes the
    parser reads (_source, _len) and the iterator protocol; tokens come from `supplier(i)`
    (None = end of input) and are pulled only when the parser asks."""

    def __init__(self, source):
        self._source = source
        self._len = len(source)
        self._i = -1
        self._done = False
        self.pulled = []

    def __iter__(self):
        return self

    def __next__(self):
        if self._done:
            raise StopIteration()
        if self._i < 0:
            self._i = 0
            return T.SOF(0, 0)
        tok = self._source.supplier(self._i)
        if tok is None:
            self._done = True
            self.pulled.append(("EOF", None))
            return T.EOF(self._i, self._i)
        self.pulled.append(tok)
        t = make_token(tok, self._i)
        self._i += 1
        return t


ENTRIES = ("document", "document_ts", "document_fragvars", "document_ts_fragvars", "value", "type")


def run_parser(entry, supplier, maxlen, no_location):
    """-> ('ok'|'error'|exception name, tokens pulled)"""
    src = StubSource("x" * (maxlen + 1))
    src.supplier = supplier
    holder = []

    def mk(source):
        lx = StubLexer(source)
        holder.append(lx)
        return lx

    saved = P.Lexer
    P.Lexer = mk
    try:
        try:
            if entry == "value":
                P.parse_value(src, no_location=no_location)
            elif entry == "type":
                P.parse_type(src, no_location=no_location)
            else:
                P.parse(src, no_location=no_location, allow_type_system="_ts" in entry,
                        experimental_fragment_variables="fragvars" in entry)
            verdict = "ok"
        except GraphQLSyntaxError as err:
            verdict = "error" if 0 <= err.position <= len(src) else "error-position-%r" % (err.position,)
    finally:
        P.Lexer = saved
    return verdict, holder[0].pulled


def grammar_args(entry):
    if entry == "value":
        return dict(start="TopValue")
    if entry == "type":
        return dict(start="TopType")
    return dict(start="TopDocument", allow_type_system="_ts" in entry, fragment_variables="fragvars" in entry)


def tok_agree(entry, alphabet, n, codes, no_location):
    """n, codes: possibly symbolic; decoded lazily, position by position."""
    maxlen = len(codes)
    decoded = {}

    def supplier(i):
        if i not in decoded:
            with retraced():
                if i >= maxlen or not (i < n):
                    decoded[i] = None
                else:
                    decoded[i] = alphabet[concrete_int(codes[i], 0, len(alphabet) - 1)]
        return decoded[i]

    with untraced():
        verdict, pulled = run_parser(entry, supplier, maxlen, no_location)
        rec = G.Recognizer(**grammar_args(entry))
        if verdict == "ok":
            # the parser consumed everything up to and including EOF
            for t in pulled:
                rec.feed(t)
            return rec.accepted(), True
        if verdict != "error":
            return False, True
        viable = True
        for t in pulled:
            if not rec.feed(t):
                viable = False
                break
        if not viable or rec.done:
            # no continuation of what the parser saw derives from the grammar (or EOF was seen and rejected)
            return (not rec.accepted()), True
        # the parser gave up on a viable prefix: decide on the complete sequence
        i = len(pulled)
        while True:
            t = supplier(i)
            if t is None:
                rec.feed(("EOF", None))
                break
            if not rec.feed(t):
                break
            i += 1
        return (not rec.accepted()), True


TOK_N = 4 if thorough() else 3
TOK_N_TS = 3 if thorough() else 2


def _tok_exec(e: int, n: int, c0: int, c1: int, c2: int, c3: int, c4: int, noloc: bool) -> bool:
    """
    pre: 0 <= e < 6
    pre: shard_of(e)
    pre: 0 <= n <= TOK_N
    pre: 0 <= c0 < len(EXEC_ALPHABET) and 0 <= c1 < len(EXEC_ALPHABET) and 0 <= c2 < len(EXEC_ALPHABET)
    pre: 0 <= c3 < len(EXEC_ALPHABET) and 0 <= c4 < len(EXEC_ALPHABET)
    post: _
    """
    entry = ENTRIES[concrete_int(e, 0, 5)]
    ok, reached = tok_agree(entry, EXEC_ALPHABET, n, [c0, c1, c2, c3, c4], True if noloc else False)
    return result(ok, reached)


def _tok_ts(e: int, n: int, c0: int, c1: int, c2: int, c3: int, noloc: bool) -> bool:
    """
    pre: 1 <= e <= 3 and e != 2
    pre: 0 <= n <= TOK_N_TS
    pre: 0 <= c0 < len(TS_ALPHABET) and 0 <= c1 < len(TS_ALPHABET) and 0 <= c2 < len(TS_ALPHABET) and 0 <= c3 < len(TS_ALPHABET)
    pre: shard_of(c0)
    post: _
    """
    entry = ENTRIES[concrete_int(e, 0, 5)]
    ok, reached = tok_agree(entry, TS_ALPHABET, n, [c0, c1, c2, c3], True if noloc else False)
    return result(ok, reached)


# seeds: accepted texts that together use every production alternative of the grammar; tokenised by the
# REFERENCE lexer.  (entry, text)
SEEDS = [
    ("document", "{ a }"),
    ("document", "query Q ($v: [Int!]! = [1] @d) @e { a: b(x: $v, y: {k: 1.5}) @f { c } ...F ... on T @g { d } ... { e } }"),
    ("document", "mutation { a(x: true, y: null, z: E, w: \"s\", v: \"\"\"b\"\"\", u: [], t: {}) }"),
    ("document", "subscription S { a } fragment F on T @d { b }"),
    ("document", "query ($a: T) { a } { b }"),
    ("document", "fragment F on T { ...G @d(a: [1 $v]) }"),
    ("document_fragvars", "fragment F($a: Int = 1) on T { a }"),
    ("document_fragvars", "fragment F on T { a }"),
    ("value", "[1 -2.5e3 \"s\" true false null E $v [] {a: {b: 1}}]"),
    ("value", "{a: $v b: [E]}"),
    ("type", "[[T!]]!"),
    ("type", "T"),
    ("document_ts", "schema @d { query: Q mutation: M subscription: S }"),
    ("document_ts", "extend schema @d"),
    ("document_ts", "extend schema { query: Q }"),
    ("document_ts", "\"d\" scalar S @d(a: 1)"),
    ("document_ts", "extend scalar S @d"),
    ("document_ts", "\"\"\"d\"\"\" type A implements & I & J @d { \"fd\" f(\"ad\" a: [Int!] = [1] @d, b: T): T! @e g: U }"),
    ("document_ts", "type A"),
    ("document_ts", "type A implements I"),
    ("document_ts", "extend type A implements I"),
    ("document_ts", "extend type A @d"),
    ("document_ts", "extend type A { f: T }"),
    ("document_ts", "interface I @d { f: T }"),
    ("document_ts", "interface I"),
    ("document_ts", "extend interface I @d"),
    ("document_ts", "extend interface I { f: T }"),
    ("document_ts", "union U @d = | A | B"),
    ("document_ts", "union U = A"),
    ("document_ts", "union U"),
    ("document_ts", "extend union U @d"),
    ("document_ts", "extend union U = A | B"),
    ("document_ts", "enum E @d { \"vd\" A @e B }"),
    ("document_ts", "enum E"),
    ("document_ts", "extend enum E @d"),
    ("document_ts", "extend enum E { A }"),
    ("document_ts", "input In @d { \"fd\" a: Int = 1 @e b: [T] }"),
    ("document_ts", "input In"),
    ("document_ts", "extend input In @d"),
    ("document_ts", "extend input In { a: T }"),
    ("document_ts", "\"d\" directive @x(a: Int = 1) on | QUERY | FIELD_DEFINITION"),
    ("document_ts", "directive @x on VARIABLE_DEFINITION"),
    ("document_ts", "type A { f: T } { a } query { b } extend type A @d fragment F on A { f }"),
    ("document_ts_fragvars", "type A { f(a: In = {k: [E]}): T } fragment F($a: T) on A { f }"),
]


def seed_tokens():
    out = []
    for entry, text in SEEDS:
        out.append((entry, [(k, v) for (k, a, b, v) in R.tokens(text)]))
    return out


_SEED_TOKENS = seed_tokens()
N_SEEDS_QUICK = 10


def n_seeds():
    return len(SEEDS) if thorough() else N_SEEDS_QUICK


def seed_pick(i):
    """quick tier: a spread of the corpus"""
    if thorough():
        return i
    return (0, 3, 4, 6, 9, 10, 14, 21, 31, 41)[i]


def _tok_edit(seed: int, kind: int, pos: int, code: int, noloc: bool) -> bool:
    """
    pre: 0 <= seed < n_seeds()
    pre: shard_of(seed)
    pre: 0 <= kind <= 2
    pre: 0 <= pos <= 60
    pre: 0 <= code < len(TS_ALPHABET)
    post: _
    """
    si = seed_pick(concrete_int(seed, 0, n_seeds() - 1))
    entry, toks = _SEED_TOKENS[si]
    k = concrete_int(kind, 0, 2)
    L = len(toks)
    limit = L if k == 2 else L - 1          # insert may also go after the last token
    if pos > limit:
        return result(True, False)           # out-of-range positions collapse into one skipped path
    p = concrete_int(pos, 0, limit)
    if k == 1:
        if code != 0:
            return result(True, False)       # delete ignores the token code
        new = toks[:p] + toks[p + 1:]
    else:
        t = TS_ALPHABET[concrete_int(code, 0, len(TS_ALPHABET) - 1)]
        new = toks[:p] + [t] + (toks[p:] if k == 2 else toks[p + 1:])
    with untraced():
        sup = lambda i: new[i] if i < len(new) else None  # noqa: E731
        verdict, pulled = run_parser(entry, sup, len(new), True if noloc else False)
        exp = G.recognises(new, **grammar_args(entry))
        ok = (verdict == "ok") == exp and verdict in ("ok", "error")
    return result(ok, True)


# ---- reserved words at EVERY Name position of EVERY grammar sentence ("Name but not true, false or null", "Name but not on", contextual keywords)
RESERVED = ("true", "false", "null", "on", "fragment", "query", "mutation", "subscription", "schema", "type", "input", "enum", "interface", "union", "scalar",
            "directive", "extend", "implements")
_SENTENCE_TOKENS = None


def sentence_tokens():
    global _SENTENCE_TOKENS
    if _SENTENCE_TOKENS is None:
        out = []
        for entry, text in G.sentence_texts():
            toks = [(k, v) for (k, a, b, v) in R.tokens(text)]
            names = [i for i, (k, v) in enumerate(toks) if k == "Name"]
            out.append((entry if entry in ("value", "type") else "document_ts_fragvars", toks, names))
        _SENTENCE_TOKENS = out
    return _SENTENCE_TOKENS


N_SENT = len(list(G.sentence_texts()))


def _reserved_names(sent: int, which: int, word: int, noloc: bool) -> bool:
    """
    pre: 0 <= sent < N_SENT and 0 <= which < 24 and 0 <= word < len(RESERVED)
    pre: thorough() or word < 4
    pre: shard_of(sent)
    post: _
    """
    S = concrete_int(sent, 0, N_SENT - 1)
    with untraced():
        entry, toks, names = sentence_tokens()[S]
        n_names = len(names)
    if which >= n_names:
        return result(True, False)
    Wh = concrete_int(which, 0, 23)
    W = RESERVED[concrete_int(word, 0, len(RESERVED) - 1)]
    with untraced():
        new = list(toks)
        new[names[Wh]] = ("Name", W)
        sup = lambda i: new[i] if i < len(new) else None  # noqa: E731
        verdict, pulled = run_parser(entry, sup, len(new), True if noloc else False)
        exp = G.recognises(new, **grammar_args(entry))
        ok = (verdict == "ok") == exp and verdict in ("ok", "error")
    return result(ok, True)


# ------------------------------------------------------------------ grammar sentences with a SPAN of tokens removed / doubled (empties brackets, drops whole optional parts, repeats list items)
def _span_edits(sent: int, start: int, length: int, dup: bool, noloc: bool) -> bool:
    """
    pre: 0 <= sent < N_SENT and 0 <= start < 40 and 1 <= length <= 4
    pre: thorough() or (length <= 3 and not dup)
    pre: shard_of(sent)
    post: _
    """
    S = concrete_int(sent, 0, N_SENT - 1)
    with untraced():
        entry, toks, names = sentence_tokens()[S]
        n = len(toks)
    if start + length > n:
        return result(True, False)
    ST, LN = concrete_int(start, 0, 39), concrete_int(length, 1, 4)
    DUP = True if dup else False
    with untraced():
        if DUP:
            new = toks[:ST + LN] + toks[ST:ST + LN] + toks[ST + LN:]          # the span written twice
        else:
            new = toks[:ST] + toks[ST + LN:]                                   # the span removed (e.g. everything between two brackets)
        sup = lambda i: new[i] if i < len(new) else None  # noqa: E731
        verdict, pulled = run_parser(entry, sup, len(new), True if noloc else False)
        exp = G.recognises(new, **grammar_args(entry))
        ok = (verdict == "ok") == exp and verdict in ("ok", "error")
    return result(ok, exp)


def parse_text_agree(entry, s):
    """whole pipeline on a text: real parse entry point vs reference lexer + grammar"""
    try:
        if entry == "value":
            P.parse_value(s)
        elif entry == "type":
            P.parse_type(s)
        else:
            P.parse(s, allow_type_system="_ts" in entry, experimental_fragment_variables="fragvars" in entry)
        real = "ok"
    except GraphQLSyntaxError as err:
        real = "error"
        if not (0 <= err.position <= len(s) or known.c01_pos_past_truncated_escape(s, err.position)):
            return False
        if not isinstance(str(err), str):
            return False
        d = err.to_dict()
        if not (isinstance(d.get("message"), str) and len(d.get("locations", [])) == 1):
            return False
    ref = ref_tokens(s)
    if ref[0] == "dontcare":
        return True
    exp = ref[0] == "ok" and G.recognises([(k, v) for (k, a, b, v) in ref[1]], **grammar_args(entry))
    return (real == "ok") == exp


def _parse_text(entry: str, s: str) -> bool:
    """concrete named cases (not a solver result): whole pipeline on fixed texts"""
    return result(parse_text_agree(entry, s), True)


def _named_cases():
    cases = [{"entry": e, "s": t} for e, t in SEEDS]
    cases += [{"entry": e, "s": t} for e, t in G.sentence_texts()]
    cases += [
        {"entry": "document", "s": "{ ... \"on\" T { a } }"},
        {"entry": "document_ts", "s": "type A \"implements\" B { f: T }"},
        {"entry": "document_ts", "s": "enum E { true }"},
        {"entry": "document_ts", "s": "extend schema"},
        {"entry": "document", "s": "{ a(x: 1e05, y: -0.0E-007) }"},
        {"entry": "document", "s": "\ufeff{ a,,, b # c\r\n }\ufeff"},
        {"entry": "document", "s": ""},
        {"entry": "value", "s": "\"\\u00e9\\n\""},
    ]
    return cases


def _render_error(s: str) -> bool:
    """
    pre: len(s) <= 2
    post: _
    """
    try:
        P.parse(s)
    except GraphQLSyntaxError as err:
        msg = str(err)
        d = err.to_dict()
        loc = d["locations"][0]
        line = loc["line"]
        ok = isinstance(msg, str) and d["message"] == msg and line >= 1 and len(d["locations"]) == 1
        return result(ok, True)
    return result(True, False)


# (prefix, suffix, max len of the symbolic middle: quick, thorough)
SHAPES = [
    ("1e", "", 2, 3), ("-", "", 2, 3), ("0", "", 1, 3), ("1.", "", 2, 3), ("1e+", "", 2, 3), ("-1.5E-", "", 2, 2),
    ('"', "", 2, 3), ('"\\', "", 2, 3), ('"\\u', "", 3, 5), ('"a', '"', 2, 2),
    ('"""', '"""', 2, 3), ('"""', "", 2, 3), ('"""\\', '"""', 2, 3),
    ("#", "\n{a}", 1, 3), ("a", "", 1, 3), ("..", "", 1, 2), ("{a", "}", 1, 2),
    ('"\\uAB', '"', 2, 3), ('"\\u0', '"', 2, 3), ('"x\\u00e', '" ', 1, 3),      # escapes whose last digits are symbolic, string closed
    # (appended) an ESCAPED BACKSLASH followed by text that looks like another escape: `"\\u00` + t + `"`, `"\\` + t + `u0041"`, `"\\\` + t + `"`
    ('"\\\\u00', '"', 2, 2), ('"\\\\', 'u0041"', 1, 2), ('"\\\\\\', '"', 2, 3), ('"\\"\\', '"', 1, 2), ('"\\\\', '"', 2, 3),
]


def shape_len_ok(p, t) -> bool:
    i = concrete_int(p, 0, len(SHAPES) - 1)
    return len(t) <= SHAPES[i][3 if thorough() else 2]


def _lex_shaped(p: int, t: str) -> bool:
    """
    pre: 0 <= p < len(SHAPES)
    pre: shard_of(p)
    pre: shape_len_ok(p, t)
    post: _
    """
    i = concrete_int(p, 0, len(SHAPES) - 1)
    s = SHAPES[i][0] + t + SHAPES[i][1]
    ok, reached = lex_agree(s)
    return result(ok, reached)


# ------------------------------------------------------------------ UTF-8 byte input == the same text as str
BYTES_PREFIX = ("", "﻿", "#é\n", "#\U0001F600\r", "﻿﻿ ")
BYTES_SUFFIX = ("", '"é', '"""€', '"\\u00e9', "é", "#€", '"\U0001F600" ', '"""é\n""" ', '"aé\\', '"""\U0001F600\\"""')


def _outcome(entry, src):
    """('ok', tree as dict) | ('error', class name, position, rendered message, response dict); any other exception propagates"""
    try:
        if entry == "value":
            node = P.parse_value(src)
        elif entry == "type":
            node = P.parse_type(src)
        else:
            node = P.parse(src, allow_type_system="_ts" in entry, experimental_fragment_variables="fragvars" in entry)
        return ("ok", node.to_dict())
    except GraphQLSyntaxError as err:
        return ("error", type(err).__name__, err.position, str(err), err.to_dict())


def _bytes_equiv(seed: int, cut: int, pre: int, suf: int) -> bool:
    """
    pre: 0 <= seed < n_seeds() and 0 <= cut <= 120 and 0 <= pre < len(BYTES_PREFIX) and 0 <= suf < len(BYTES_SUFFIX)
    pre: shard_of(seed)
    pre: thorough() or pre == 0 or suf <= 1
    post: _
    """
    S = concrete_int(seed, 0, n_seeds() - 1)
    entry, text = SEEDS[seed_pick(S)]
    if cut > len(text):
        return result(True, False)
    CUT = concrete_int(cut, 0, len(text))
    PRE, SUF = pick(pre, BYTES_PREFIX), pick(suf, BYTES_SUFFIX)
    with untraced():
        src = PRE + text[:CUT] + SUF
        as_str = _outcome(entry, src)
        as_bytes = _outcome(entry, src.encode("utf-8"))
        ok = as_str == as_bytes and parse_text_agree(entry, src)
    return result(ok, True)


CONDITIONS = [
    Cond(
        name="span_edits", fn=_span_edits, quick=150, thorough=900, per_path=30, shards_quick=16, shards_thorough=16,
        bound="one witness text per expanded production alternative of the grammar (%d sentences) with EVERY contiguous span of 1..3 (thorough 4) tokens removed (this empties argument lists, selection sets, variable definitions, "
              "object / list values, member lists; drops optional parts; fuses neighbours), thorough also with the span written twice: the parser accepts exactly when the grammar does" % N_SENT,
        symbolic={"sent": "choice: sentence", "start,length": "choice: the span", "dup": "choice: remove / repeat", "noloc": "choice"},
        assumptions=["as tok_exec; sentences are tokenised by the reference lexer"],
        witness={"sent": 0, "start": 1, "length": 1, "dup": False, "noloc": False},
    ),
    Cond(
        name="bytes_equiv", fn=_bytes_equiv, quick=90, thorough=400, per_path=30, shards_quick=N_SEEDS_QUICK, shards_thorough=len(SEEDS),
        bound="UTF-8 bytes vs str: %d (thorough: all %d) seed texts cut at EVERY position x %d prefixes (BOM, comment with a 2-byte / 4-byte character ended by LF / CR) x %d suffixes (quick: every prefix with the first two suffixes, every suffix without prefix; unterminated quoted / block string, "
              "escape or bare character of 2, 3, 4 UTF-8 bytes, terminated strings with such characters, string cut inside an escape): parsing the encoded bytes gives the same tree or the same syntax error (class, position, "
              "rendered message, response dictionary) as parsing the text, never another exception; the text itself is also compared with the reference lexer + grammar" % (N_SEEDS_QUICK, len(SEEDS), len(BYTES_PREFIX), len(BYTES_SUFFIX)),
        symbolic={"seed": "choice: seed text", "cut": "choice: cut position", "pre,suf": "choice: non-ASCII prefix / suffix"},
        assumptions=["str.encode realises a symbolic string in CrossHair, so the text is assembled from choice variables and encoded concretely"],
        witness={"seed": 0, "cut": 3, "pre": 1, "suf": 1},
    ),
    Cond(name="parse_text", fn=_parse_text, kind="concrete", cases=_named_cases,
         bound="fixed texts (seed corpus + named defects): real parse entry points vs reference lexer + grammar; NOT a solver result"),
    Cond(
        name="render_error", fn=_render_error, quick=60, thorough=300, per_path=30, expect_exhaust=False,
        bound="every str s with len(s) <= 2 whose parse fails: str(err) and err.to_dict() do not raise (highlight_location goes through a regex split, which CrossHair samples: one realised witness per path)",
        symbolic={"s": "data: the source text"}, assumptions=["regex split on a symbolic string is realised by the engine (sampled dimension)"],
        witness={"s": "\"\\"},
    ),
    Cond(
        name="tok_edit", fn=_tok_edit, quick=100, thorough=900, per_path=30, shards_quick=N_SEEDS_QUICK, shards_thorough=len(SEEDS),
        bound="every single-token edit (substitute / delete / insert at any position, any of the %d token codes) of %d seed documents" % (len(TS_ALPHABET), N_SEEDS_QUICK),
        bound_thorough="every single-token edit of all %d seeds (the corpus uses every production alternative of the grammar; seed length <= 57 tokens)" % len(SEEDS),
        symbolic={"seed": "choice: which accepted seed", "kind": "choice: substitute/delete/insert", "pos": "choice: position", "code": "choice: token code", "noloc": "choice"},
        assumptions=["as tok_exec; seeds are tokenised by the reference lexer"],
        witness={"seed": 0, "kind": 0, "pos": 1, "code": 14, "noloc": False},
    ),
    Cond(
        name="reserved_names", fn=_reserved_names, quick=150, thorough=600, per_path=30, shards_quick=16, shards_thorough=16,
        bound="one witness text per expanded production alternative of the grammar (%d sentences) x EVERY Name position of the sentence x %d reserved words put there (quick: true, false, null, on): "
              "the parser accepts exactly when the grammar does (enum values and default values 'but not true, false or null', fragment names 'but not on', keywords that are ordinary names elsewhere)" % (N_SENT, len(RESERVED)),
        symbolic={"sent": "choice: sentence", "which": "choice: which Name token", "word": "choice: reserved word", "noloc": "choice"},
        assumptions=["as tok_exec; sentences are tokenised by the reference lexer"],
        witness={"sent": 0, "which": 0, "word": 0, "noloc": False},
    ),
    Cond(
        name="tok_exec", fn=_tok_exec, quick=160, thorough=1500, per_path=30, shards_quick=6, shards_thorough=6,
        bound="every token sequence of length <= 3 over the %d-code executable alphabet, 6 entry points/flag sets, no_location on/off" % len(EXEC_ALPHABET),
        bound_thorough="same, length <= 3",
        symbolic={"e": "choice: entry point and parser flags", "n": "choice: sequence length", "c0..c4": "choice: token codes", "noloc": "choice: no_location"},
        assumptions=["stub lexer (StubLexer) replaces py_gql.lang.parser.Lexer: tokens carry fake 1-wide positions",
                     "oracle: Earley recogniser over the June-2018 grammar (oracles/grammar.py) with [lookahead != {] on optional trailing blocks",
                     "a rejection by the parser on a prefix that the grammar cannot continue is decided without enumerating the continuation (viable-prefix property of Earley sets)"],
        witness={"e": 0, "n": 3, "c0": 0, "c1": 14, "c2": 1, "c3": 0, "c4": 0, "noloc": False},
    ),
    Cond(
        name="tok_ts", fn=_tok_ts, quick=100, thorough=1500, per_path=30, shards_quick=16, shards_thorough=16,
        bound="every token sequence of length <= 2 over the %d-code type-system alphabet, allow_type_system on, fragment variables on/off" % len(TS_ALPHABET),
        bound_thorough="same, length <= 3",
        symbolic={"e": "choice: flags", "n": "choice: length", "c0..c3": "choice: token codes", "noloc": "choice: no_location"},
        assumptions=["as tok_exec"],
        witness={"e": 1, "n": 2, "c0": 21, "c1": 14, "c2": 0, "c3": 0, "noloc": False},
    ),
    Cond(
        name="lex_shaped", fn=_lex_shaped, quick=60, thorough=900, per_path=30,
        shards_quick=len(SHAPES), shards_thorough=len(SHAPES),
        bound="prefix + t + suffix for the %d shapes in SHAPES, symbolic t with len(t) <= 1..3 per shape (column 3)" % len(SHAPES),
        bound_thorough="same shapes, len(t) <= 2..5 per shape (column 4)",
        symbolic={"p": "choice: which (prefix, suffix) shape", "t": "data: the symbolic middle"},
        assumptions=["oracle: oracles/ref_lexer.py", "int(str, 16) on a symbolic all-hex string is modelled arithmetically (vf/chfix.py item 5)"],
        witness={"p": 0, "t": "5"},
    ),
    Cond(
        name="lex_generic", fn=_lex_generic, quick=100, thorough=1500, per_path=30,
        shards_quick=12, shards_thorough=12,
        bound="every str s with len(s) <= 2 (sharded 12-way by the class of s[0])",
        bound_thorough="every str s with len(s) <= 3 (sharded 12-way by the class of s[0])",
        symbolic={"s": "data: the source text (all code points)"},
        assumptions=["oracle: oracles/ref_lexer.py (June-2018 lexical grammar + documented NameStart look-ahead after numbers); "
                     "number followed by a digit or '.' is don't-care"],
        witness={"s": "a1"},
    ),
]


def SELFCHECK():
    """oracle validation on the repository's own inputs (plain CPython, untraced)"""
    problems = []
    import os
    fx = "/repo/tests/fixtures"
    n = 0
    for f, ts in (("kitchen-sink.graphql", False), ("schema-kitchen-sink.graphql", True), ("github-schema.graphql", True), ("introspection-schema.graphql", True)):
        path = os.path.join(fx, f)
        if not os.path.exists(path):
            continue
        src = open(path).read()
        if not src.strip():
            continue
        n += 1
        real, ref = real_tokens(src), ref_tokens(src)
        if real != ref:
            problems.append("lexers disagree on fixture %s" % f)
            continue
        toks = [(k, v) for (k, a, b, v) in ref[1]]
        if not G.recognises(toks, allow_type_system=ts):
            problems.append("grammar oracle rejects fixture %s" % f)
        try:
            P.parse(src, allow_type_system=ts)
        except Exception as e:  # noqa
            problems.append("parser rejects fixture %s: %r" % (f, e))
    for entry, toks in _SEED_TOKENS:
        if not G.recognises(toks, **grammar_args(entry)):
            problems.append("seed not in the grammar: %r" % (toks,))
    return {"fixtures": n, "seeds": len(SEEDS), "problems": problems}
