"""C16 - instrumentation and middlewares see every field exactly once, properly nested."""
from vf import known  # noqa: F401
from vf.spec import Cond, result, untraced, retraced, shard_of, thorough, concrete_int, pick  # noqa: F401

from py_gql.execution import BlockingExecutor, Executor, MultiInstrumentation
from harness import execworld as W
from harness.c08 import make_chooser

# (label, query, variables, kinds, expected stage set)
OUTCOMES = (
    ("syntax-error", "{ a ", None, {}, ("query", "parsing")),
    ("validation-error", "{ nope }", None, {}, ("query", "parsing", "validation")),
    ("variable-error", "query ($v: Int!) { a b }", {}, {"a": 1}, ("query", "parsing", "validation")),
    ("success-flat", "{ a b nn }", None, {"a": 1}, ("query", "parsing", "validation", "execution")),
    ("success-nested", "{ a o { x y } l { x } }", None, {"a": 1, "o": 1, "x": 1, "l": 1}, ("query", "parsing", "validation", "execution")),
    ("partial-failure", "{ a o { x y } b }", None, {"a": 2, "o": 1, "x": 2}, ("query", "parsing", "validation", "execution")),
    ("mutation", "mutation { m1 { x } m2 { x } m3 }", None, {"m1": 1, "m2": 2, "m3": 1, "x": 1}, ("query", "parsing", "validation", "execution")),
    ("argument-error", "{ a o { x } }", None, {"a": 1, "o": 2}, ("query", "parsing", "validation", "execution")),
    ("operation-not-found", "query A { a } query B { a }", None, {"a": 1}, ("query", "parsing", "validation"), {"operation_name": "C"}),
    ("operation-by-name", "query A { a } query B { b o { x } }", None, {"a": 1, "o": 1, "x": 1}, ("query", "parsing", "validation", "execution"), {"operation_name": "B"}),
    ("ast-document", "{ a o { x y } }", None, {"a": 1, "o": 1, "x": 1}, ("query", "validation", "execution"), {"as_ast": True}),
    ("ast-validation-error", "{ nope }", None, {}, ("query", "validation"), {"as_ast": True}),
    ("list-items", "{ l { x y } a }", None, {"a": 1, "l": 1, "x": 1, "y": 1}, ("query", "parsing", "validation", "execution")),
    ("completion-error", "{ a sc o { x sc } b }", None, {"a": 1, "o": 1, "x": 1}, ("query", "parsing", "validation", "execution")),
    ("meta-fields", "{ __typename a o { __typename x } t: __type(name: \"Obj\") { name } }", None, {"a": 1, "o": 1, "x": 1}, ("query", "parsing", "validation", "execution")),
    # (appended) selections switched off by @skip / @include: nothing (or nothing below a field) is left to execute, the stages still pair up
    ("all-root-skipped", "{ a @skip(if: true) b @include(if: false) }", None, {"a": 1}, ("query", "parsing", "validation", "execution")),
    ("all-root-skipped-by-variable", "query ($s: Boolean!) { a @skip(if: $s) ... @include(if: false) { b } }", {"s": True}, {"a": 1}, ("query", "parsing", "validation", "execution")),
    ("nested-all-skipped", "{ a o { x @skip(if: true) y @include(if: false) } b }", None, {"a": 1, "o": 1, "x": 1}, ("query", "parsing", "validation", "execution")),
    ("mutation-all-skipped", "mutation { m1 @skip(if: true) { x } m3 @include(if: false) }", None, {"m1": 1, "m3": 1, "x": 1}, ("query", "parsing", "validation", "execution")),
    ("root-directive-null-variable", "query ($v: Boolean = true) { a @skip(if: $v) b }", {"v": None}, {"a": 1}, ("query", "parsing", "validation", "execution")),
    # (appended) requests that parse and validate but whose variable VALUES are rejected (the older 'variable-error' outcome declares a variable it never uses and is
    # therefore refused by validation already): required variable missing / of the wrong type / null, in a query and in a mutation
    ("variable-error-missing", "query ($v: Boolean!) { a @skip(if: $v) b }", {}, {"a": 1}, ("query", "parsing", "validation")),
    ("variable-error-type", "query ($v: Boolean!, $w: Boolean = true) { a @skip(if: $v) o @include(if: $w) { x } }", {"v": [1]}, {"a": 1, "o": 1, "x": 1}, ("query", "parsing", "validation")),
    ("variable-error-null", "mutation ($v: Boolean!) { m1 @skip(if: $v) { x } m3 }", {"v": None}, {"m1": 1, "m3": 1, "x": 1}, ("query", "parsing", "validation")),
    ("variable-error-ast", "query ($v: Boolean!) { a @skip(if: $v) b }", {"v": {}}, {"a": 1}, ("query", "validation"), {"as_ast": True}),
)


HOOKS = ("on_query_start", "on_query_end", "on_parsing_start", "on_parsing_end", "on_validation_start", "on_validation_end", "on_execution_start", "on_execution_end",
         "on_field_start", "on_field_end")
_ALL = (1 << len(HOOKS)) - 1
# which hooks a stacked instrumentation overrides (the others are inherited from Instrumentation): none extra, every single hook, everything but one hook,
# only starts, only ends, only field hooks, only stage hooks
PARTIALS = (None,) + tuple(1 << i for i in range(len(HOOKS))) + tuple(_ALL ^ (1 << i) for i in range(len(HOOKS))) + (0b0101010101, 0b1010101010, 0b1100000000, 0b0011111111)


def hook_of(event):
    return "on_%s_%s" % (event[0], event[1])


def partial_recorder(log, mask):
    from py_gql.execution import Instrumentation
    ns = {name: getattr(W.Recorder, name) for i, name in enumerate(HOOKS) if mask >> i & 1}
    cls = type("Partial", (Instrumentation,), ns)
    obj = cls()
    obj.log, obj.name = log, "p"
    return obj


def run(cfg, query, variables, kinds, sched, n_instr, n_mw, partial=None, ppos=0, extra=None, shared=False):
    extra = dict(extra or {})
    if extra.pop("as_ast", False):
        from py_gql.lang import parse
        query = parse(query)
    W.SHARED_RESOLVER = shared
    try:
        return _run(cfg, query, variables, kinds, sched, n_instr, n_mw, partial, ppos, extra)
    finally:
        W.SHARED_RESOLVER = False


def _run(cfg, query, variables, kinds, sched, n_instr, n_mw, partial, ppos, extra):
    log = []
    recs = [W.Recorder(log, "i%d" % i) for i in range(n_instr)]
    if partial is not None:
        recs.insert(ppos, partial_recorder(log, partial))
    instr = recs[0] if len(recs) == 1 else MultiInstrumentation(*recs)
    mws = [W.make_middleware(log, "mw%d" % i) for i in range(n_mw)]
    kw = dict(instrumentation=instr, middlewares=mws, variables=variables, log=log, **extra)
    if cfg == 0:
        got, w = W.run_blocking(kinds, query, BlockingExecutor, **kw)
    elif cfg == 1:
        got, w = W.run_blocking(kinds, query, Executor, **kw)
    elif cfg == 2:
        got, w = W.run_thread(kinds, query, make_chooser(sched), **kw)
    else:
        got, w = W.run_async(kinds, query, make_chooser(sched), True, **kw)
    return got, w, log


def check_partial(log, n_instr, mask, ppos):
    """the partially overriding instrumentation sees exactly the events of the hooks it overrides, at its place in the stack"""
    full = [e[1:] for e in log if e[0] == "i0"]
    mine = [(k, e[1:]) for k, e in enumerate(log) if e[0] == "p"]
    want = [e for e in full if mask >> HOOKS.index(hook_of(e)) & 1]
    if sorted(map(repr, [e for _, e in mine])) != sorted(map(repr, want)):
        return "partial instrumentation (hooks %s) saw %r, expected %r" % ([h for i, h in enumerate(HOOKS) if mask >> i & 1], [e for _, e in mine], want)
    for k, e in mine:
        for j in range(n_instr):
            at = [i for i, x in enumerate(log) if x == ("i%d" % j,) + e]
            if len(at) != 1:
                return "event %r seen %d times by i%d" % (e, len(at), j)
            before_in_stack = j < ppos
            if e[1] == "start" and (at[0] < k) != before_in_stack:
                return "start %r: wrong order between the partial instrumentation and i%d" % (e, j)
            if e[1] == "end" and (at[0] < k) != (not before_in_stack):
                return "end %r: wrong order between the partial instrumentation and i%d" % (e, j)
    return ""


def check_log(log, n_instr, n_mw, stages, got):
    """pushdown checker over the event log; returns '' or a description of the first problem"""
    log = [e for e in log if e[0] != "p"]
    names = ["i%d" % i for i in range(n_instr)]
    # --- stacking: every hook event appears as a block of n_instr entries, starts in order, ends reversed
    hooks = [e for e in log if e[0] in names]
    if len(hooks) % n_instr:
        return "hook events are not a multiple of the stack size"
    for b in range(0, len(hooks), n_instr):
        block = hooks[b:b + n_instr]
        if len({e[1:] for e in block}) != 1:
            return "stacked instrumentations saw different events %r" % (block,)
        order = [e[0] for e in block]
        exp = names if block[0][2] == "start" else names[::-1]
        if order != exp:
            return "stack order %r for %r" % (order, block[0][1:])
    first = [e[1:] for e in log if e[0] == "i0"]
    # --- stages: start/end pairs, properly nested, each at most once, in pipeline order
    stage_events = [e for e in first if e[0] != "field"]
    exp = [("query", "start")]
    for st in ("parsing", "validation", "execution"):
        if st in stages:
            exp += [(st, "start"), (st, "end")]
    exp.append(("query", "end"))
    if stage_events != exp:
        return "stage events %r, expected %r" % (stage_events, exp)
    # field events happen inside the execution stage
    idx = {e: i for i, e in enumerate(first) if e[0] != "field"}
    # --- fields: exactly one start and one end per resolved path, start < resolver < end
    pos = {}
    for i, e in enumerate(log):
        if e[0] == "i0" and e[1] == "field":
            pos.setdefault(e[3], {}).setdefault(e[2], []).append(i)
        elif e[0] == "resolver":
            pos.setdefault(e[3], {}).setdefault("resolver", []).append(i)
        elif e[0] == "mw":
            pos.setdefault(e[3], {}).setdefault("mw", []).append((i, e[1]))
    ex_start = next((i for i, e in enumerate(log) if e[0] == "i0" and e[1:3] == ("execution", "start")), None)
    ex_end = next((i for i, e in enumerate(log) if e[0] == "i0" and e[1:3] == ("execution", "end")), None)
    for path, p in pos.items():
        if len(p.get("start", [])) != 1 or len(p.get("end", [])) != 1:
            return "field %r: starts %r ends %r" % (path, p.get("start"), p.get("end"))
        s, e = p["start"][0], p["end"][0]
        if not s < e:
            return "field %r ends before it starts" % (path,)
        if ex_start is None or not (ex_start < s and e < ex_end):
            return "field %r events outside the execution stage" % (path,)
        r = p.get("resolver", [])
        if len(r) > 1:
            return "resolver for %r ran %d times" % (path, len(r))
        if r and not (s < r[0] < e):
            return "field %r: resolver at %d not between start %d and end %d" % (path, r[0], s, e)
        mw = p.get("mw", [])
        if [m[1] for m in mw] != ["mw%d" % i for i in reversed(range(n_mw))]:
            return "field %r: middleware order %r" % (path, mw)
        if mw and not (s < mw[0][0] and (not r or mw[-1][0] < r[0])):
            return "field %r: middlewares not between start and resolver" % (path,)
    return ""


def _hooks(o: int, cfg: int, ni: int, nm: int, s0: int, s1: int, s2: int, s3: int, s4: int, s5: int, pv: int = 0, pp: int = 0, shared: bool = False) -> bool:
    """
    pre: 0 <= o < len(OUTCOMES) and 0 <= cfg <= 3 and 1 <= ni <= 3 and 0 <= nm <= 3 and 0 <= pv < len(PARTIALS) and 0 <= pp <= ni and (pv > 0 or pp == 0)
    pre: pv == 0 or (ni <= 2 and nm <= 1 and (thorough() or (ni == 1 and nm == 0 and s1 == 0 and s2 == 0 and not shared)))
    pre: 0 <= s0 <= 5 and 0 <= s1 <= 4 and 0 <= s2 <= 3 and 0 <= s3 <= 2 and 0 <= s4 <= 1 and s5 == 0
    pre: shard_of(o * 4 + cfg + pv * 7 + s0 * 3)
    pre: ni == 1 or nm <= 1 or thorough()
    pre: not shared or thorough() or (ni == 1 and nm <= 1 and pv == 0)
    post: _
    """
    outcome = pick(o, OUTCOMES)
    label, query, variables, kinds, stages = outcome[:5]
    extra = outcome[5] if len(outcome) > 5 else None
    SH = True if shared else False
    C, NI, NM = concrete_int(cfg, 0, 3), concrete_int(ni, 1, 3), concrete_int(nm, 0, 3)
    PV, PP = pick(pv, PARTIALS), concrete_int(pp, 0, 3)
    sched = [s0, s1, s2, s3, s4, s5]
    if C <= 1 and any(s != 0 for s in sched):
        return result(True, False)
    with untraced():
        got, w, log = run(C, query, variables, kinds, sched, NI, NM, PV, PP, extra, SH)
        if got[0] == "pruned":
            return result(True, False)
        steps = getattr(w, "steps", 0)
    for r in sched[steps:]:
        if r != 0:
            return result(True, False)
    with untraced():
        problem = check_log(log, NI, NM, stages, got) if got[0] == "ok" else "request did not produce a result: %r" % (got,)
        if not problem and label.startswith("variable-error-") and not any("ariable" in m for m, _ in got[2]):
            problem = "the request was not refused at variable coercion (vacuous outcome): %r" % (got,)
        if not problem and PV is not None:
            problem = check_partial(log, NI, PV, PP)
    return result(problem == "", True)


CONDITIONS = [
    Cond(
        name="hooks", fn=_hooks, quick=300, thorough=900, per_path=60, shards_quick=16, shards_thorough=32,
        bound="%d request outcomes (every root / nested selection switched off by @skip / @include, a directive evaluated with a null variable at the root, syntax / validation / variable error, unknown operation name, operation selected by name, document given as a parsed AST (valid / invalid), flat, nested and list success, "
              "partial failure with ResolverError, mutation, failing parent) x 4 configurations x separate resolver functions or ONE function object shared by every custom field (quick: shared only with one instrumentation and <= 1 middleware) " % len(OUTCOMES) +
              "x 1..3 stacked instrumentations x 0..3 middlewares (quick: not both > 1) x EVERY completion order "
              "x an extra stacked instrumentation that overrides only SOME hooks (%d patterns: each single hook, all but one, starts, ends, field hooks, stage hooks) at every stack position "
              "(next to <= 2 full recorders and <= 1 middleware; quick: one full recorder, no middleware, separate resolvers, first completion choice free only)" % (len(PARTIALS) - 1),
        symbolic={"o": "choice: outcome", "cfg": "choice: configuration", "ni": "choice: stacked instrumentations", "nm": "choice: middlewares", "s0..s5": "choice: completion order", "pv,pp": "choice: partially overriding instrumentation and its stack position", "shared": "choice: one resolver function for all fields"},
        assumptions=["as C08 (stub pool, DetLoop)", "oracle: pushdown checker over the recorded event log (check_log)"],
        witness={"o": 4, "cfg": 2, "ni": 1, "nm": 0, "s0": 0, "s1": 0, "s2": 0, "s3": 0, "s4": 0, "s5": 0, "pv": 10, "pp": 1, "shared": False},
    ),
]
