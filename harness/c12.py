"""C12 - schema -> SDL -> schema is the identity; printing is history-independent."""
import json
import os
import subprocess

from vf import known  # noqa: F401
from vf.spec import Cond, result, untraced, retraced, shard_of, thorough, concrete_int, pick  # noqa: F401

from py_gql import build_schema
from py_gql.schema import (
    Argument, EnumType, EnumValue, Field, ID, InputField, InputObjectType, Int, ListType, NonNullType, ObjectType, ScalarType, Schema, String, Float, Boolean,
)
from py_gql.sdl import ASTSchemaPrinter
from py_gql.lang.lexer import Lexer
from py_gql.lang import token as T
import importlib
ANV = importlib.import_module("py_gql.utilities.ast_node_from_value")
from harness import sdlgen as S
from harness.c11 import same, diff
from oracles import ref_lexer as RL

INDENTS = (4, 2, "\t", 1)
OPTS = tuple({"indent": i, "include_descriptions": d, "include_custom_schema_directives": c} for i in INDENTS for d in (True, False) for c in (False, True))


def code_schema(permuted=False):
    """code-built schema: enum with internal values, defaults of every input kind, python names.
    permuted=True: the same type names and the same Python default values, but the enum's internal values are
    assigned to other names (so equal-looking defaults must print differently)"""
    if permuted:
        color = EnumType("Color", [EnumValue("RED", "blue"), EnumValue("BLUE", (0, 255, 0), deprecation_reason="no blue"), EnumValue("GREEN", 1)], description="colors")
    else:
        color = EnumType("Color", [EnumValue("RED", 1), EnumValue("BLUE", "blue", deprecation_reason="no blue"), EnumValue("GREEN", (0, 255, 0))], description="colors")
    inp = InputObjectType("In", lambda: [
        InputField("f", NonNullType(Int)), InputField("g", String, default_value="s"), InputField("c", color, default_value="blue"),
        InputField("again", ListType(NonNullType(inp)), default_value=[]), InputField("fl", Float, default_value=1.5), InputField("b", Boolean, default_value=True),
    ], description="an input")
    q = ObjectType("Query", [
        Field("e", Int, args=[Argument("c", color, default_value=1), Argument("cs", ListType(color), default_value=[1, "blue"]),
                              Argument("i", inp, default_value={"f": 1, "g": "s", "c": (0, 255, 0), "again": [], "fl": 1.5, "b": True}), Argument("n", Int, default_value=None),
                              Argument("id", ID, default_value="5"), Argument("ids", ID, default_value="abc"),
                              Argument("big", Float, default_value=1e21), Argument("s", String, default_value='q"\\\n'),
                              # (fully coerced) default dicts whose keys come in ANOTHER order than the fields are declared
                              Argument("j", inp, default_value={"b": False, "fl": 1.5, "again": [], "c": "blue", "g": "s", "f": 2}),
                              Argument("js", ListType(inp), default_value=[{"g": "x", "f": 3, "c": 1, "b": True, "fl": 2.5, "again": []}])], description="field e"),
        Field("old", String, deprecation_reason="gone"), Field("c", color),
    ])
    return Schema(q)


def normalise_enum_defaults(snap):
    """a rebuilt schema carries enum names as internal values: compare defaults through the enum *names*"""
    return snap


def code_snapshot(schema):
    """snapshot with enum-typed defaults expressed as names (what survives SDL)"""
    snap = S.snapshot(schema)

    def fix(type_expr, v, tmap):
        base = type_expr.strip("[]!")
        t = tmap.get(base)
        if v is None:
            return None
        if type_expr.rstrip("!").startswith("["):
            inner = type_expr.rstrip("!")[1:-1]
            return [fix(inner, x, tmap) for x in (v if isinstance(v, (list, tuple)) else [v])]
        if isinstance(t, EnumType):
            return t.get_name(v) if v in t._reverse_values else v
        if isinstance(t, InputObjectType) and isinstance(v, dict):
            return {f.name: fix(S.tstr(f.type), v[f.name], tmap) for f in t.fields if f.name in v}
        return v
    tmap = dict(schema.types)
    for t in snap["types"].values():
        if t["kind"] in ("object", "interface"):
            t["fields"] = [(n, ty, [(an, at, ("default", fix(at, d[1], tmap)) if d else None, ad) for (an, at, d, ad) in args], de, dp) for (n, ty, args, de, dp) in t["fields"]]
        if t["kind"] == "input":
            t["fields"] = [(n, ty, ("default", fix(ty, d[1], tmap)) if d else None, de) for (n, ty, d, de) in t["fields"]]
    return snap


def _roundtrip(src: int, opt: int, default: int, recursion: int, mask: int, text: int = 0) -> bool:
    """
    pre: 0 <= src <= 1 and 0 <= opt < len(OPTS) and 0 <= default < len(S.DEFAULT_KINDS) and 0 <= recursion <= 3 and 0 <= mask <= 4 and 0 <= text < len(S.TEXT_SUFFIXES)
    pre: text == 0 or (src == 0 and mask == 0 and (thorough() or (default <= 1 and recursion == 3)))
    pre: shard_of(opt)
    post: _
    """
    SRC, O = concrete_int(src, 0, 1), pick(opt, OPTS)
    D, R, M = concrete_int(default, 0, len(S.DEFAULT_KINDS) - 1), concrete_int(recursion, 0, 3), concrete_int(mask, 0, 4)
    TX = concrete_int(text, 0, len(S.TEXT_SUFFIXES) - 1)
    if SRC == 1 and (D != 0 or R != 0 or M != 0):
        return result(True, False)
    with untraced():
        if SRC == 0:
            rec = S.base_record(dict(desc=True, dep=True, default=D, recursion=R, schema_def=(M == 1), roots=M, present=0x3F, text=TX))
            schema = build_schema(S.render(rec))
        else:
            schema = code_schema()
        text = schema.to_string(**O)
        again = schema.to_string(**O)
        rebuilt = build_schema(text)
        text2 = rebuilt.to_string(**O)
        a, b = code_snapshot(schema), code_snapshot(rebuilt)
        if not O["include_descriptions"]:
            # descriptions are deliberately not printed: compare everything else
            strip = lambda x: json.loads(json.dumps(x), object_hook=lambda d: {k: (None if k == "desc" else v) for k, v in d.items()})  # noqa: E731
            a, b = _strip_desc(a), _strip_desc(b)
        ok = text == again and text2 == text and diff(_sorted(a), _sorted(b)) == ""
    return result(ok, True)


def _sorted(s):
    return dict(s, types=dict(sorted(s["types"].items())))


def _strip_desc(snap):
    out = json.loads(json.dumps(snap))

    def walk(x):
        if isinstance(x, dict):
            return {k: (None if k == "desc" else walk(v)) for k, v in x.items()}
        if isinstance(x, list):
            return [walk(v) for v in x]
        return x
    out = walk(out)
    for t in out["types"].values():
        if "fields" in t:
            t["fields"] = [[f[0], f[1]] + ([[[a[0], a[1], a[2], None] for a in f[2]], None, f[4]] if len(f) == 5 else [f[2], None]) for f in t["fields"]]
        if "values" in t:
            t["values"] = [[v[0], None, v[2]] for v in t["values"]]
    for d in out["directives"].values():
        d["args"] = [[a[0], a[1], a[2], None] for a in d["args"]]
    return out


# ---- history independence: reference = the first call in a FRESH interpreter
_FRESH = {}
HSCHEMAS = ("gen", "code", "directives", "code-permuted")
DIRECTIVE_SDL = 'directive @tag(v: Int) on FIELD_DEFINITION | OBJECT\ntype Query @tag(v: 1) { a: Int @tag(v: 2) @deprecated(reason: "x") b: Int @deprecated }'


def make_hschema(name):
    if name == "gen":
        return build_schema(S.render(S.base_record(dict(desc=True, dep=True, default=10, recursion=3))))
    if name == "code":
        return code_schema()
    if name == "code-permuted":
        return code_schema(permuted=True)
    return build_schema(DIRECTIVE_SDL)


# ---------------------------------------------------------------- the white-list form of include_custom_schema_directives
WL_NAMES = ("tag", "other", "deprecated", "skip", "include", "nope")
WL_SDL = (
    DIRECTIVE_SDL,
    'directive @tag(v: Int) on FIELD_DEFINITION | OBJECT | ENUM_VALUE | ARGUMENT_DEFINITION | INPUT_FIELD_DEFINITION | SCHEMA | ENUM | UNION | INTERFACE | SCALAR | INPUT_OBJECT\n'
    'directive @other on FIELD_DEFINITION | OBJECT | ENUM_VALUE\n'
    'schema @tag(v: 0) { query: Query }\n'
    'type Query @tag(v: 1) @other { a(x: Int @tag(v: 3), i: In): E @tag(v: 2) @deprecated(reason: "x") @other b: Int @deprecated c: U d: I s: S }\n'
    'enum E @tag { X @tag(v: 4) @deprecated Y @other @deprecated(reason: "") Z @other }\n'
    'input In @tag { f: Int @tag(v: 5) }\nunion U @tag = Query\ninterface I @tag { d: I @other }\nscalar S @tag',
    # (appended) directives on a definition AND on its extensions (several extend blocks, the schema definition extended as well)
    'directive @tag(v: Int) on FIELD_DEFINITION | OBJECT | SCHEMA | ENUM | UNION | INTERFACE | SCALAR | INPUT_OBJECT | ENUM_VALUE\ndirective @other on FIELD_DEFINITION | OBJECT | SCHEMA | ENUM | UNION | INTERFACE | SCALAR | INPUT_OBJECT\n'
    'schema @tag(v: 0) { query: Query }\nextend schema @other\n'
    'type Query @tag(v: 1) { a: E @tag(v: 2) c: U d: I s: S i(x: In): Int }\nextend type Query @other { z: Int @other }\nextend type Query @tag(v: 9)\n'
    'enum E @tag { X }\nextend enum E @other { Y @tag(v: 3) }\ninput In @tag { f: Int }\nextend input In @other { g: Int }\n'
    'union U @tag = Query\nextend union U @other\ninterface I @tag { d: I }\nextend interface I @other { e: Int }\nscalar S @tag\nextend scalar S @other',
)


def _directive_whitelist(sd: int, wl: int, rev: bool, desc: bool) -> bool:
    """
    pre: 0 <= sd < len(WL_SDL) and 0 <= wl < 64
    post: _
    """
    SD, WL = concrete_int(sd, 0, len(WL_SDL) - 1), concrete_int(wl, 0, 63)
    REV, DESC = (True if rev else False), (True if desc else False)
    with untraced():
        schema = build_schema(WL_SDL[SD])
        names = [n for i, n in enumerate(WL_NAMES) if WL >> i & 1]
        if REV:
            names.reverse()
        custom = [n for n in schema.directives if n not in ("deprecated", "skip", "include")]
        text = schema.to_string(include_custom_schema_directives=names, include_descriptions=DESC)
        problem = ""
        # the white list selects among the CUSTOM directives; it is the documented filter, so it equals True / False when it names all / none of them
        if all(c in names for c in custom) and text != schema.to_string(include_custom_schema_directives=True, include_descriptions=DESC):
            problem = "a white list naming every custom directive prints another text than True"
        elif not any(c in names for c in custom) and text != schema.to_string(include_custom_schema_directives=False, include_descriptions=DESC):
            problem = "a white list naming no custom directive prints another text than False"
        if not problem:
            rebuilt = build_schema(text)
            if rebuilt.to_string(include_custom_schema_directives=names, include_descriptions=DESC) != text:
                problem = "the rebuilt schema prints another text"
            elif text != schema.to_string(include_custom_schema_directives=names, include_descriptions=DESC):
                problem = "the second call prints another text"
            else:
                a, b = code_snapshot(schema), code_snapshot(rebuilt)
                if not DESC:
                    a, b = _strip_desc(a), _strip_desc(b)
                for snap in (a, b):
                    for n in list(snap["directives"]):
                        # directive DEFINITIONS that the white list leaves unused are still definitions of the schema and are printed; nothing to strip
                        pass
                problem = diff(_sorted(a), _sorted(b))
    return result(problem == "", WL > 0)


# ---------------------------------------------------------------- string defaults of custom scalars that look like numbers
SCALAR_TEXTS = ("abc", "42.42", "12", "-7", "007", "1e5", " 12", "1_000", "inf", "nan", "Infinity", "-inf", "1.0", "-0.0", "0x10", "1e+40", "2147483648", "-2147483649", "", "true", "null",
                "1.", ".5", "+1", "1e400", "12\n", "0", "-0", "1E5", "1.50")


def _scalar_default_texts(t: int, where: int, code: bool) -> bool:
    """
    pre: 0 <= t < len(SCALAR_TEXTS) and 0 <= where <= 2
    post: _
    """
    TXT, WH, CODE = pick(t, SCALAR_TEXTS), concrete_int(where, 0, 2), (True if code else False)
    with untraced():
        if CODE:
            sc = ScalarType("S", serialize=lambda v: v, parse=lambda v: v)
            inp = InputObjectType("In", [InputField("g", sc, default_value=TXT)])
            q = ObjectType("Query", [Field("f", Int, args=[Argument("x", sc, default_value=TXT), Argument("xs", ListType(sc), default_value=[TXT, "abc"]),
                                                            Argument("i", inp, default_value={"g": TXT})])])
            schema = Schema(q)
        else:
            lit = json.dumps(TXT)
            schema = build_schema("scalar S input In { g: S = %s } type Query { f(x: S = %s, xs: [S] = [%s, \"abc\"], i: In = {g: %s}): Int }" % (lit, lit, lit, lit))

        def defaults(s):
            f = s.types["Query"].field_map["f"]
            return [f.argument_map["x"].default_value, f.argument_map["xs"].default_value, f.argument_map["i"].default_value, s.types["In"].field_map["g"].default_value]
        text = schema.to_string()
        rebuilt = build_schema(text)
        text2 = rebuilt.to_string()
        # the SDL-declared scalar hands number literals to its consumers as their source text, so a default that was a string stays that string
        ok = text2 == text and [json.dumps(d) for d in defaults(rebuilt)][WH:WH + 2] == [json.dumps(d) for d in defaults(schema)][WH:WH + 2]
    return result(ok, True)


# ---------------------------------------------------------------- code-built list defaults, given as lists and as a bare item
LIST_DEFAULTS = (("[Int]", [5], True), ("[Int]", 5, False), ("[[Int]]", [[5], []], True), ("[[Int]]", [5], False), ("[[Int]]", 5, False), ("[Color]", [1, "blue"], True), ("[Color]", 1, False),
                 ("[In]", [{"f": 1}], True), ("[Int!]!", [5], True), ("[Int!]!", 5, False), ("[Int]", [], True), ("[Int]", [None, 5], True), ("[String]", ["a"], True), ("[String]", "a", False))


def _list_default_items(i: int, where: int) -> bool:
    """
    pre: 0 <= i < len(LIST_DEFAULTS) and 0 <= where <= 1
    post: _
    """
    (texpr, default, is_list), WH = pick(i, LIST_DEFAULTS), concrete_int(where, 0, 1)
    if not is_list and known.c12_bare_item_for_list_default():
        return result(True, False)
    with untraced():
        color = EnumType("Color", [EnumValue("RED", 1), EnumValue("BLUE", "blue")])
        inp = InputObjectType("In", [InputField("f", Int)])
        base = {"Int": Int, "String": String, "Color": color, "In": inp}

        def ty(e):
            if e.endswith("!"):
                return NonNullType(ty(e[:-1]))
            if e.startswith("["):
                return ListType(ty(e[1:-1]))
            return base[e]
        if WH == 0:
            q = ObjectType("Query", [Field("f", Int, args=[Argument("x", ty(texpr), default_value=default)])])
            schema = Schema(q, types=[color, inp])
        else:
            holder = InputObjectType("Holder", [InputField("x", ty(texpr), default_value=default)])
            schema = Schema(ObjectType("Query", [Field("f", Int, args=[Argument("h", holder)])]), types=[color, inp])
        text = schema.to_string()
        rebuilt = build_schema(text)
        ok = rebuilt.to_string() == text
    return result(ok, True)


def fresh_text(name, oi):
    key = (name, oi)
    if key not in _FRESH:
        repo_src = os.path.join(os.environ.get("VF_REPO", "/repo"), "src")
        code = ("import sys, json; sys.path.insert(0, %r); sys.path.insert(0, " + repr(repo_src) + ");\n"
                "from harness.c12 import make_hschema, OPTS\n"
                "print('FRESH' + json.dumps(make_hschema(%r).to_string(**OPTS[%d])))") % (os.environ.get("VERIF_ROOT", "/verif"), name, oi)
        env = dict(os.environ, PYTHONPATH=os.environ.get("VERIF_ROOT", "/verif") + ":" + repo_src, PYTHONHASHSEED="0")
        p = subprocess.run(["/venv/bin/python", "-c", code], capture_output=True, text=True, env=env, timeout=120)
        line = [l for l in p.stdout.splitlines() if l.startswith("FRESH")]
        if not line:
            raise RuntimeError("fresh interpreter failed: %s" % p.stderr[-500:])
        _FRESH[key] = json.loads(line[0][5:])
    return _FRESH[key]


def _history(h1: int, h2: int, h3: int, s: int, o: int) -> bool:
    """
    pre: -1 <= h1 < 8 and -1 <= h2 < 8 and -1 <= h3 < 8 and 0 <= s < len(HSCHEMAS) and 0 <= o < 4
    pre: (h2 == -1 or h1 >= 0) and (h3 == -1 or h2 >= 0)
    pre: shard_of(s * 4 + o)
    post: _
    """
    hist = [concrete_int(h, -1, 7) for h in (h1, h2, h3)]
    NAME = pick(s, HSCHEMAS)
    OI = (0, 1, 2, 3)[concrete_int(o, 0, 3)]          # indent 4, desc on/off, custom directives off/on
    with untraced():
        # earlier calls in this process: (schema, option set) pairs
        for h in hist:
            if h >= 0:
                make_hschema(HSCHEMAS[h % 4]).to_string(**OPTS[0 if h < 4 else 1])
        schema = make_hschema(NAME)
        text = schema.to_string(**OPTS[OI])
        ok = text == fresh_text(NAME, OI)
        if ok:
            build_schema(text)                            # and the parser accepts it
    return result(ok, any(h >= 0 for h in hist))


# ---- description kernel: print_description output re-lexed as one string token
class _Defn:
    def __init__(self, d):
        self.description = d


DESC_N = 3 if thorough() else 2


def representable(d) -> bool:
    """SDL can spell d as a block string at all: BlockStringValue(d) == d and only source characters (no CR: it would read back as LF)"""
    for c in d:
        if not (c >= " " or c == "\t" or c == "\n"):
            return False
    return RL.block_string_value(d) == d


def _description_kernel(d: str, depth: int, first: bool, indent: int) -> bool:
    """
    pre: 1 <= len(d) <= DESC_N
    pre: 0 <= depth <= 2 and 0 <= indent <= 1
    pre: representable(d)
    pre: not known.c12_desc_excluded(d)
    pre: shard_of(depth * 4 + indent * 2 + (1 if first else 0))
    post: _
    """
    p = ASTSchemaPrinter(indent=(4, "\t")[concrete_int(indent, 0, 1)])
    out = p.print_description(_Defn(d), concrete_int(depth, 0, 2), True if first else False)
    try:
        toks = RL.tokens(out)
    except (RL.RefSyntaxError, RL.DontCare):
        return result(False, True)
    ok = len(toks) == 1 and toks[0][0] in ("BlockString", "String") and toks[0][3] == d
    return result(ok, len(d) >= 2)


def _int_re(s: str) -> bool:
    """replay body of the z3 condition: _INT_RE matches exactly the IntValue language"""
    def spec(x):
        if x.startswith("-"):
            x = x[1:]
        if x == "0":
            return True
        return len(x) > 0 and x[0] in "123456789" and all(c in "0123456789" for c in x)
    return result((ANV._INT_RE.match(s) is not None) == spec(s), True)


def _solve_int_re(tier):
    import z3
    from vf.smt import regex2z3 as RZ
    pat = ANV._INT_RE
    impl = RZ.lang_of_match(pat)
    digit, nz = RZ.rng("0", "9"), RZ.rng("1", "9")
    spec = z3.Concat(z3.Option(RZ.lit("-")), z3.Union(RZ.lit("0"), z3.Concat(nz, z3.Star(digit))))
    bad = RZ.validate_translation(pat, impl)
    if bad:
        return {"verdict": "error", "detail": "translator disagrees with re: %r" % (bad[:3],)}
    r = RZ.inclusion(impl, spec)
    out = {"verdict": r["verdict"], "queries": r["queries"], "solver_s": r["solver_s"], "smt_sizes": r["smt_sizes"], "second_opinion": r["second_opinion"],
           "detail": "language of _INT_RE under re.match == IntValue (spec 2.9.1); pattern %r" % pat.pattern}
    if r["verdict"] == "refuted":
        out["counterexample"] = {"s": r["witness"]}
    return out


CONDITIONS = [
    Cond(
        name="list_default_items", fn=_list_default_items, quick=60, thorough=60,
        bound="code-built list-typed defaults ([Int], [[Int]], [Color], [In], [Int!]!, [String]) given as lists of the declared depth (and, as a listed known finding, as a bare item) on an argument and on an "
              "input field: the rebuilt schema prints the same text",
        symbolic={"i,where": "choice"}, assumptions=["known finding C12-bare-item-for-list-default excluded"], witness={"i": 0, "where": 0},
    ),
    Cond(
        name="scalar_default_texts", fn=_scalar_default_texts, quick=60, thorough=60,
        bound="%d string values of a custom scalar that look more or less like numbers ('007', '1e5', ' 12', '1_000', 'inf', 'nan', '42.42', '-0.0', '1e400', ...) as default of an argument, a list item, "
              "an input field and inside an object default x SDL-built / code-built: the printed text builds a schema with the SAME default values that prints the same text" % len(SCALAR_TEXTS),
        symbolic={"t,where,code": "choice"}, witness={"t": 1, "where": 0, "code": False},
    ),
    Cond(
        name="directive_whitelist", fn=_directive_whitelist, quick=100, thorough=100,
        bound="the white-list form of include_custom_schema_directives: 3 SDL-built schemas carrying custom directives on every kind of element next to @deprecated (one with directives on definitions AND on their extensions) x every subset (both orders) of "
              "{two custom names, deprecated, skip, include, an unknown name} x descriptions on / off: the text equals the True / False form when the list names all / none of the custom directives, "
              "the rebuilt schema prints the same text under the same option and is structurally identical, repeated calls agree",
        symbolic={"sd,wl,rev,desc": "choice"}, witness={"sd": 0, "wl": 5, "rev": False, "desc": True},
    ),
    Cond(
        name="roundtrip", fn=_roundtrip, quick=150, thorough=600, per_path=60, shards_quick=16, shards_thorough=16,
        bound="SDL-built schemas of the C11 generator (13 default kinds x 4 recursion patterns x 5 root-type naming variants incl. swapped conventional names and a schema extension adding a root) and a code-built schema (enum internal values incl. a tuple, defaults of every input kind, "
              "recursive input) x 16 printer option sets (indent 4/2/tab/1, descriptions, custom schema directives) x 9 texts appended to EVERY description and deprecation reason (quotes and backslashes, a second line, BMP and astral "
              "non-ASCII, trailing backslash / quote, tab, U+2028/U+0085; quick: for two generator settings): to_string twice equal, rebuilt schema structurally equal, reprint equal",
        symbolic={"src": "choice", "opt": "choice: printer options", "default,recursion,mask": "choice: generator", "text": "choice: description / reason text"},
        assumptions=["structural equality = harness/sdlgen.snapshot with enum-typed defaults compared by value name"],
        witness={"src": 0, "opt": 0, "default": 1, "recursion": 0, "mask": 0, "text": 0},
    ),
    Cond(
        name="history", fn=_history, quick=200, thorough=400, per_path=60, shards_quick=16, shards_thorough=16,
        bound="every sequence of 0..3 earlier to_string calls (4 schemas, two of them with the same type names and equal Python defaults that must print differently, x 2 option sets) in the same process, then the call under test (4 schemas x 4 option sets): equal to the first call in a fresh interpreter",
        symbolic={"h1,h2,h3": "choice: earlier calls", "s": "choice: schema", "o": "choice: options"},
        assumptions=["reference text computed once per (schema, options) in a fresh /venv/bin/python subprocess"],
        witness={"h1": 1, "h2": -1, "h3": -1, "s": 2, "o": 3},
    ),
    Cond(
        name="description_kernel", fn=_description_kernel, quick=150, thorough=1500, per_path=30, shards_quick=12, shards_thorough=12,
        bound="print_description on every description of 1..2 (thorough 3) symbolic characters representable as a block string, depth 0..2, first-in-block or not, indent 4 or tab: output is one string token whose value is the description",
        symbolic={"d": "data: description text", "depth,first,indent": "choice"},
        assumptions=["re-lexed with the reference lexer (oracles/ref_lexer.py)", "descriptions long enough to be re-wrapped are outside the claim (the property excludes them too)"],
        witness={"d": "ab", "depth": 1, "first": True, "indent": 0},
    ),
    Cond(name="int_re", fn=_int_re, kind="z3", solve=_solve_int_re, quick=60, thorough=60, twin=False,
         bound="strings of every length: language of the live _INT_RE == IntValue", symbolic={"s": "data: z3 String"}, witness={"s": "-10"}),
]
