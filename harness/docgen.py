"""Executable-document generator shared by C04 / C05 / C19: every subset (in order) of a list of selection pieces that exercise
aliases of one field with different sub-depths, a named fragment spread several times (plain, @skip, @include, at a deeper level),
inline fragments with and without type condition, both directives on one node, nested fragments - over the gqlworld schema."""

PIECES = (
    "name",
    "n2: name",
    "best { name }",
    "b2: best { best { name } }",
    "b2: best { age }",
    "...UF",
    "...UF @skip(if: $s)",
    "...UF @include(if: $i)",
    "... @include(if: $i) { id }",
    "... on Node { id ...NF }",
    "age @skip(if: $s) @include(if: $i)",
    "friends { ...UF b3: best { best { best { id } } } }",
    "x1: best { id } x2: best { best { best { best { id } } } }",
)
FRAGMENTS = "fragment UF on User { age friends { name } } fragment NF on Node { name }"


def document(mask, wrap=0):
    """wrap: 0 plain, 1 whole selection inside `... on User { }`, 2 inside a named fragment, 3 top-level inline fragment around me"""
    sel = " ".join(p for i, p in enumerate(PIECES) if mask >> i & 1)
    frags = FRAGMENTS
    if wrap == 1:
        sel = "... on User { %s }" % sel
    elif wrap == 2:
        frags += " fragment Sel on User { %s }" % sel
        sel = "...Sel"
    body = "me { %s }" % sel
    if wrap == 3:
        body = "... on Query { %s }" % body
    return "query Q($s: Boolean!, $i: Boolean!) { %s n k1: n @skip(if: $s) k2: n @include(if: $i) } %s" % (body, frags)


def mask_in_tier(mask, thorough) -> bool:
    if thorough:
        return True
    c = 0
    for i in range(len(PIECES)):
        if mask >> i & 1:
            c += 1
    return c <= 3


def mask_of(indices):
    m = 0
    for i in indices:
        if i < len(PIECES):
            m |= 1 << i
    return m
