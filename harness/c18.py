"""C18 - AST visitors reach every node once with balanced enter/leave; edits stay local."""
import copy

from vf import known  # noqa: F401
from vf.spec import Cond, result, untraced, shard_of, thorough, concrete_int, pick  # noqa: F401

from py_gql.lang import ast as A
from py_gql.lang import parse
from py_gql.lang.visitor import ASTVisitor, ChainedVisitor, DispatchingVisitor, SkipNode

# Child slots per node kind in SOURCE order, written from the grammar (spec appendix B); Name nodes excluded.
TABLE = {
    "Document": ("definitions",),
    "OperationDefinition": ("variable_definitions", "directives", "selection_set"),
    "VariableDefinition": ("variable", "type", "default_value", "directives"),
    "Variable": (),
    "SelectionSet": ("selections",),
    "Field": ("arguments", "directives", "selection_set"),
    "Argument": ("value",),
    "FragmentSpread": ("directives",),
    "InlineFragment": ("type_condition", "directives", "selection_set"),
    "FragmentDefinition": ("variable_definitions", "type_condition", "directives", "selection_set"),
    "IntValue": (), "FloatValue": (), "StringValue": (), "BooleanValue": (), "NullValue": (), "EnumValue": (),
    "ListValue": ("values",),
    "ObjectValue": ("fields",),
    "ObjectField": ("value",),
    "Directive": ("arguments",),
    "NamedType": (), "ListType": ("type",), "NonNullType": ("type",),
    "SchemaDefinition": ("directives", "operation_types"),
    "OperationTypeDefinition": ("type",),
    "ScalarTypeDefinition": ("description", "directives"),
    "ObjectTypeDefinition": ("description", "interfaces", "directives", "fields"),
    "FieldDefinition": ("description", "arguments", "type", "directives"),
    "InputValueDefinition": ("description", "type", "default_value", "directives"),
    "InterfaceTypeDefinition": ("description", "directives", "fields"),
    "UnionTypeDefinition": ("description", "directives", "types"),
    "EnumTypeDefinition": ("description", "directives", "values"),
    "EnumValueDefinition": ("description", "directives"),
    "InputObjectTypeDefinition": ("description", "directives", "fields"),
    "SchemaExtension": ("directives", "operation_types"),
    "ScalarTypeExtension": ("directives",),
    "ObjectTypeExtension": ("interfaces", "directives", "fields"),
    "InterfaceTypeExtension": ("directives", "fields"),
    "UnionTypeExtension": ("directives", "types"),
    "EnumTypeExtension": ("directives", "values"),
    "InputObjectTypeExtension": ("directives", "fields"),
    "DirectiveDefinition": ("description", "arguments"),
}
KINDS = tuple(TABLE)

# Sources providing, for every kind, instances with 0, 1 and 2 elements in list slots and optional slots present/absent.
SOURCES = (
    """
    query Q($a: [Int!]! = [1, 2] @dv(x: 1) @dw, $b: T) @d1(a: 1, b: $a) @d2 {
      al: f(x: 1.5, y: "s", z: {k: [true, null, E, $b], j: {}}) @d { g ...F @d ...on T @d { h } ... { i } }
      j
    }
    fragment F($fv: Int = 3) on T @d @e { k ...G }
    fragment G on T { l }
    { m(a: [], b: {}) }
    mutation { n }
    """,
    '''
    schema @d @e { query: Q mutation: M }
    schema { query: Q }
    extend schema @d
    extend schema @d @e { subscription: S mutation: M }
    "sd" scalar S1 @d @e
    scalar S2
    extend scalar S1 @d
    """od""" type O implements I & J @d @e { "fd" f("ad" a: [Int!]! = [1] @d @e, b: Int): [T!]! @d @e g: T }
    type P
    type P2 implements I { h: Int }
    extend type O implements K @d { i: Int j: Int }
    extend type O @d
    "id" interface I @d @e { f: Int g: Int }
    interface J
    extend interface I @d { h: Int }
    "ud" union U @d @e = A | B
    union V = A
    union W
    extend union U @d = C | D
    extend union U @d
    "ed" enum E @d @e { "vd" X @d @e Y }
    enum E2 { Z }
    extend enum E @d { W V }
    "ind" input In @d @e { "ifd" a: Int = 1 @d @e b: [In] }
    input In2 { c: Int }
    extend input In @d { d: Int e: Int }
    "dd" directive @x("a1" a: Int = 1, b: Int) on FIELD | QUERY
    directive @y on FIELD
    ''',
)


def all_nodes(node, out):
    out.append(node)
    for slot in getattr(node, "__slots__", ()):
        if slot in ("source", "loc"):
            continue
        v = getattr(node, slot, None)
        if isinstance(v, A.Node):
            all_nodes(v, out)
        elif isinstance(v, list):
            for x in v:
                if isinstance(x, A.Node):
                    all_nodes(x, out)
    return out


def instances():
    """kind -> list of (source index, ordinal) for every node of that kind in the parsed sources"""
    inst = {k: [] for k in KINDS}
    for si, src in enumerate(SOURCES):
        doc = parse(src, allow_type_system=True, experimental_fragment_variables=True)
        counts = {}
        for n in all_nodes(doc, []):
            k = type(n).__name__
            if k in inst:
                inst[k].append((si, counts.get(k, 0)))
                counts[k] = counts.get(k, 0) + 1
    return inst


_INST = instances()
MAX_INST = 6


def get_instance(kind, j):
    si, ordinal = _INST[kind][j]
    doc = parse(SOURCES[si], allow_type_system=True, experimental_fragment_variables=True)
    c = 0
    for n in all_nodes(doc, []):
        if type(n).__name__ == kind:
            if c == ordinal:
                return n
            c += 1
    raise AssertionError


def children_of(node):
    out = []
    for slot in TABLE[type(node).__name__]:
        v = getattr(node, slot, None)
        if v is None:
            continue
        if isinstance(v, list):
            for i, x in enumerate(v):
                out.append((slot, i, x))
        else:
            out.append((slot, None, v))
    return out


class Recorder(ASTVisitor):
    def __init__(self, target=None, action=0, replacement=None):
        self.events = []
        self.target, self.action, self.replacement = target, action, replacement

    def enter(self, node):
        self.events.append(("enter", id(node)))
        if node is self.target:
            if self.action == 1:
                return None
            if self.action == 2:
                return self.replacement
            if self.action == 3:
                raise SkipNode()
        return node

    def leave(self, node):
        self.events.append(("leave", id(node)))


def make_replacement(child):
    r = copy.deepcopy(child)
    return r


ACTIONS = ("keep", "delete", "replace", "skip")


def _visit_step(kind: int, inst: int, target: int, action: int) -> bool:
    """
    pre: 0 <= kind < len(KINDS) and 0 <= inst < MAX_INST and 0 <= target < 12 and 0 <= action <= 3
    pre: shard_of(kind)
    post: _
    """
    K = pick(kind, KINDS)
    J = concrete_int(inst, 0, MAX_INST - 1)
    T = concrete_int(target, 0, 11)
    a = concrete_int(action, 0, 3)
    with untraced():
        if J >= len(_INST[K]):
            return result(True, False)
        node = get_instance(K, J)
        before = copy.deepcopy(node)
        kids = children_of(node)
        excluded = [c for c in kids if known.c18_unvisited_slot(K, c[0])]
        kids = [c for c in kids if not known.c18_unvisited_slot(K, c[0])]
        if T >= max(len(kids), 1) or (not kids and a != 0):
            return result(True, False)
        tgt = kids[T][2] if kids else None
        if a == 0 and T != 0:
            return result(True, False)
        repl = make_replacement(tgt) if (a == 2 and tgt is not None) else None
        rec = Recorder(tgt if a != 0 else None, a, repl)
        ret = rec.visit(node)
        interesting = {id(node): "self"}
        for (slot, i, c) in kids:
            interesting[id(c)] = (slot, i)
        if repl is not None:
            interesting[id(repl)] = "repl"
        got = [(ev, interesting[i]) for (ev, i) in rec.events if i in interesting]
        exp = [("enter", "self")]
        for (slot, i, c) in kids:
            exp.append(("enter", (slot, i)))
            if c is tgt and a == 1:
                continue
            if c is tgt and a == 3:
                continue
            if c is tgt and a == 2:
                exp.append(("leave", "repl"))
            else:
                exp.append(("leave", (slot, i)))
        exp.append(("leave", "self"))
        if known.c18_misordered_kind(K):
            ok = sorted(map(repr, got)) == sorted(map(repr, exp)) and got[0] == exp[0] and got[-1] == exp[-1]
        else:
            ok = got == exp
        ok = ok and ret is node
        # post state of the slots
        if ok:
            for slot in TABLE[K]:
                old = getattr(before, slot, None)
                new = getattr(node, slot, None)
                if known.c18_unvisited_slot(K, slot):
                    ok = ok and new == old
                    continue
                if isinstance(old, list):
                    expected = []
                    for i, c in enumerate(old):
                        live = [k for k in kids if k[0] == slot and k[1] == i][0][2]
                        if live is tgt and a == 1:
                            continue
                        if live is tgt and a == 2:
                            expected.append(repl)
                            ok = ok and any(x is repl for x in (new or []))
                        else:
                            expected.append(c)
                    ok = ok and list(new or []) == expected
                else:
                    live = [k for k in kids if k[0] == slot]
                    if live and live[0][2] is tgt and a == 1:
                        ok = ok and new is None
                    elif live and live[0][2] is tgt and a == 2:
                        ok = ok and new is repl
                    else:
                        ok = ok and new == old
        if ok and a == 0:
            ok = node == before
    return result(ok, len(kids) > 0)


# ---- the node itself is replaced by enter() AND one of its children is edited in the same pass (two edits at different depths)
class RootReplacer(Recorder):
    def __init__(self, root, root2, target, action, replacement):
        super().__init__(target, action, replacement)
        self.root, self.root2 = root, root2

    def enter(self, node):
        if node is self.root:
            self.events.append(("enter", id(node)))
            return self.root2
        return super().enter(node)


def _parent_replace(kind: int, inst: int, target: int, action: int, fresh: bool) -> bool:
    """
    pre: 0 <= kind < len(KINDS) and 0 <= inst < MAX_INST and 0 <= target < 12 and 0 <= action <= 3
    pre: shard_of(kind)
    post: _
    """
    K = pick(kind, KINDS)
    J = concrete_int(inst, 0, MAX_INST - 1)
    T = concrete_int(target, 0, 11)
    a = concrete_int(action, 0, 3)
    FR = True if fresh else False
    with untraced():
        if J >= len(_INST[K]):
            return result(True, False)
        node = get_instance(K, J)
        # the replacement: a new object of the same kind that shares the children (shallow copy) or carries fresh, equal children (deep copy)
        root2 = copy.deepcopy(node) if FR else copy.copy(node)
        kids = [c for c in children_of(root2) if not known.c18_unvisited_slot(K, c[0])]
        if T >= max(len(kids), 1) or (not kids and a != 0):
            return result(True, False)
        if a == 0 and T != 0:
            return result(True, False)
        tgt = kids[T][2] if kids else None
        repl = make_replacement(tgt) if (a == 2 and tgt is not None) else None
        before2 = copy.deepcopy(root2)
        rec = RootReplacer(node, root2, tgt if a != 0 else None, a, repl)
        ret = rec.visit(node)
        interesting = {id(node): "old-self", id(root2): "self"}
        for (slot, i, c) in kids:
            interesting[id(c)] = (slot, i)
        if repl is not None:
            interesting[id(repl)] = "repl"
        got = [(ev, interesting[i]) for (ev, i) in rec.events if i in interesting]
        # enter sees the old node, everything after that happens on (and below) the node enter() returned
        exp = [("enter", "old-self")]
        for (slot, i, c) in kids:
            exp.append(("enter", (slot, i)))
            if c is tgt and a in (1, 3):
                continue
            exp.append(("leave", "repl" if (c is tgt and a == 2) else (slot, i)))
        exp.append(("leave", "self"))
        if known.c18_misordered_kind(K):
            ok = sorted(map(repr, got)) == sorted(map(repr, exp)) and got[0] == exp[0] and got[-1] == exp[-1]
        else:
            ok = got == exp
        ok = ok and ret is root2
        if ok:
            for slot in TABLE[K]:
                if known.c18_unvisited_slot(K, slot):
                    continue
                old, new = getattr(before2, slot, None), getattr(root2, slot, None)
                if isinstance(old, list):
                    expected = []
                    for i, c in enumerate(old):
                        live = [k for k in kids if k[0] == slot and k[1] == i][0][2]
                        if live is tgt and a == 1:
                            continue
                        expected.append(repl if (live is tgt and a == 2) else c)
                    ok = ok and list(new or []) == expected
                else:
                    live = [k for k in kids if k[0] == slot]
                    if live and live[0][2] is tgt and a == 1:
                        ok = ok and new is None
                    elif live and live[0][2] is tgt and a == 2:
                        ok = ok and new is repl
                    else:
                        ok = ok and new == old
    return result(ok, len(kids) > 0 and a != 0)


class PlanRecorder(ASTVisitor):
    """applies one action per listed child: plan maps id(child) -> (action, replacement)"""

    def __init__(self, plan):
        self.events, self.plan = [], plan

    def enter(self, node):
        self.events.append(("enter", id(node)))
        action, repl = self.plan.get(id(node), (0, None))
        if action == 1:
            return None
        if action == 2:
            return repl
        if action == 3:
            raise SkipNode()
        return node

    def leave(self, node):
        self.events.append(("leave", id(node)))


def run_plan(K, J, wanted):
    """wanted: list of (child index, action); returns (ok, number of children) for the J-th instance of kind K"""
    node = get_instance(K, J)
    before = copy.deepcopy(node)
    kids = [c for c in children_of(node) if not known.c18_unvisited_slot(K, c[0])]
    if any(t >= len(kids) for t, _ in wanted):
        return None, len(kids)
    plan, by_index = {}, {}
    for t, a in wanted:
        child = kids[t][2]
        repl = make_replacement(child) if a == 2 else None
        plan[id(child)] = (a, repl)
        by_index[t] = (a, repl)
    rec = PlanRecorder(plan)
    ret = rec.visit(node)
    interesting = {id(node): "self"}
    for n, (slot, i, c) in enumerate(kids):
        interesting[id(c)] = ("kid", n)
        if by_index.get(n, (0, None))[1] is not None:
            interesting[id(by_index[n][1])] = ("repl", n)
    got = [(ev, interesting[i]) for (ev, i) in rec.events if i in interesting]
    exp = [("enter", "self")]
    for n in range(len(kids)):
        a, repl = by_index.get(n, (0, None))
        exp.append(("enter", ("kid", n)))
        if a in (1, 3):
            continue
        exp.append(("leave", ("repl", n) if a == 2 else ("kid", n)))
    exp.append(("leave", "self"))
    if known.c18_misordered_kind(K):
        ok = sorted(map(repr, got)) == sorted(map(repr, exp)) and got[0] == exp[0] and got[-1] == exp[-1]
    else:
        ok = got == exp
    ok = ok and ret is node
    if not ok:
        return False, len(kids)
    index_of = {(slot, i): n for n, (slot, i, c) in enumerate(kids)}
    for slot in TABLE[K]:
        old, new = getattr(before, slot, None), getattr(node, slot, None)
        if known.c18_unvisited_slot(K, slot):
            ok = ok and new == old
        elif isinstance(old, list):
            expected = []
            for i, c in enumerate(old):
                a, repl = by_index.get(index_of[(slot, i)], (0, None))
                if a == 1:
                    continue
                expected.append(repl if a == 2 else c)
            new = list(new or [])
            ok = ok and len(new) == len(expected) and all((x is e) if isinstance(e, A.Node) and any(e is r for _, r in by_index.values()) else (x == e) for x, e in zip(new, expected))
        elif old is not None:
            a, repl = by_index.get(index_of[(slot, None)], (0, None))
            ok = ok and ((new is None) if a == 1 else (new is repl) if a == 2 else (new == old))
    return ok, len(kids)


def _visit_pairs(kind: int, inst: int, t1: int, a1: int, t2: int, a2: int) -> bool:
    """
    pre: 0 <= kind < len(KINDS) and 0 <= inst < MAX_INST and 0 <= t1 < t2 < 12 and 1 <= a1 <= 3 and 1 <= a2 <= 3
    pre: thorough() or t2 == t1 + 1 or t1 == 0
    pre: shard_of(kind)
    post: _
    """
    K = pick(kind, KINDS)
    J = concrete_int(inst, 0, MAX_INST - 1)
    with untraced():
        if J >= len(_INST[K]):
            return result(True, False)
        nk = len([c for c in children_of(get_instance(K, J)) if not known.c18_unvisited_slot(K, c[0])])
    if t2 >= nk:
        return result(True, False)          # one symbolic comparison instead of enumerating positions that do not exist
    T1, T2 = concrete_int(t1, 0, 10), concrete_int(t2, 1, 11)
    A1, A2 = concrete_int(a1, 1, 3), concrete_int(a2, 1, 3)
    with untraced():
        ok, nkids = run_plan(K, J, [(T1, A1), (T2, A2)])
        if ok is None:
            return result(True, False)
    return result(ok, True)


class ChainRec(ASTVisitor):
    def __init__(self, log, name, mode, target_kind):
        self.log, self.name, self.mode, self.target_kind = log, name, mode, target_kind

    def enter(self, node):
        self.log.append(("enter", self.name, id(node)))
        if type(node).__name__ == self.target_kind:
            if self.mode == 1:
                return None
            if self.mode == 2:
                raise SkipNode()
        return node

    def leave(self, node):
        self.log.append(("leave", self.name, id(node)))


def _chained(n: int, who: int, mode: int) -> bool:
    """
    pre: 1 <= n <= 3 and 0 <= who < n and 0 <= mode <= 2
    post: _
    """
    N, W, M = concrete_int(n, 1, 3), concrete_int(who, 0, 2), concrete_int(mode, 0, 2)
    with untraced():
        doc = parse("{ a { b } c }")
        log = []
        vs = [ChainRec(log, i, M if i == W else 0, "Field") for i in range(N)]
        ChainedVisitor(*vs).visit(doc)
        ok = True
        # group events per node in order of first appearance
        per_node = {}
        for ev, name, nid in log:
            per_node.setdefault(nid, []).append((ev, name))
        fields = [x for x in all_nodes(doc, []) if isinstance(x, A.Field)]
        top = doc.definitions[0].selection_set.selections if doc.definitions[0].selection_set else []
        for nid, evs in per_node.items():
            enters = [nm for ev, nm in evs if ev == "enter"]
            leaves = [nm for ev, nm in evs if ev == "leave"]
            is_field = any(id(f) == nid for f in all_nodes(parse("{a}"), [])) or len(enters) < N
            if M == 0 or len(enters) == N and len(leaves) == N:
                ok = ok and enters == list(range(N)) and leaves == list(range(N))[::-1]
            else:
                # the node on which visitor W returned None / raised SkipNode: visitors 0..W entered, nobody left
                ok = ok and enters == list(range(W + 1)) and leaves == []
        if M == 1:
            # deleted everywhere: no Field survives
            ok = ok and not [x for x in all_nodes(doc, []) if isinstance(x, A.Field)]
    return result(ok, True)


class ChainReplacer(ASTVisitor):
    """visitor `who` of the chain replaces every lower-case Field by an upper-cased copy (a NEW node object); the others only record"""

    def __init__(self, log, name, active, made):
        self.log, self.name, self.active, self.made = log, name, active, made

    def enter(self, node):
        self.log.append(("enter", self.name, id(node)))
        if self.active and isinstance(node, A.Field) and node.name.value.islower():
            new = copy.copy(node)
            new.name = A.Name(value=node.name.value.upper())
            self.made[id(node)] = new
            return new
        return node

    def leave(self, node):
        self.log.append(("leave", self.name, id(node)))


def _chained_replace(n: int, who: int, src: int) -> bool:
    """
    pre: 1 <= n <= 4 and 0 <= who < n and 0 <= src <= 2
    post: _
    """
    N, W, S = concrete_int(n, 1, 4), concrete_int(who, 0, 3), concrete_int(src, 0, 2)
    with untraced():
        doc = parse(("{ a { b } c }", "{ a(x: 1) @d { ...F } } fragment F on T { b { c } }", "query Q { x: a y: b { c d } }")[S])
        originals = [x for x in all_nodes(doc, []) if isinstance(x, A.Field)]
        log, made = [], {}
        ChainedVisitor(*[ChainReplacer(log, i, i == W, made) for i in range(N)]).visit(doc)
        ok = len(made) == len(originals)
        for o in originals:
            r = made.get(id(o))
            if r is None:
                ok = False
                continue
            ent_o = [nm for ev, nm, nid in log if ev == "enter" and nid == id(o)]
            ent_r = [nm for ev, nm, nid in log if ev == "enter" and nid == id(r)]
            lea_o = [nm for ev, nm, nid in log if ev == "leave" and nid == id(o)]
            lea_r = [nm for ev, nm, nid in log if ev == "leave" and nid == id(r)]
            # visitors up to the replacing one see the original, the later ones the replacement; everybody leaves the replacement, in reverse order
            ok = ok and ent_o == list(range(W + 1)) and ent_r == list(range(W + 1, N)) and lea_o == [] and lea_r == list(range(N))[::-1]
        after = [x for x in all_nodes(doc, []) if isinstance(x, A.Field)]
        ok = ok and len(after) == len(originals) and all(f.name.value.isupper() for f in after) and all(any(f is r for r in made.values()) for f in after)
    return result(ok, True)


class AllKinds(DispatchingVisitor):
    pass


def _dispatch_total(kind: int) -> bool:
    """
    pre: 0 <= kind < len(KINDS)
    post: _
    """
    K = pick(kind, KINDS)
    with untraced():
        import re
        snake = re.sub(r"(?<!^)(?=[A-Z])", "_", K).lower()
        seen = []
        v = DispatchingVisitor()
        setattr(v, "enter_" + snake, lambda n: (seen.append("enter"), n)[1])
        setattr(v, "leave_" + snake, lambda n: seen.append("leave"))
        node = get_instance(K, 0)
        v.visit(node)
        ok = seen[:1] == ["enter"] and seen[-1:] == ["leave"] and hasattr(DispatchingVisitor, "enter_" + snake) and hasattr(DispatchingVisitor, "leave_" + snake)
    return result(ok, True)


CONDITIONS = [
    Cond(
        name="parent_replace", fn=_parent_replace, quick=60, thorough=200, per_path=30, shards_quick=16, shards_thorough=16,
        bound="two edits at DIFFERENT depths in one pass: enter() replaces the node under test by a new object of the same kind (sharing its children, or carrying fresh equal children) and one of its direct children is kept / deleted / "
              "replaced / skipped - every kind x instance x child x action: the traversal continues on the replacement (its children are entered and left once, in order), the child edit lands in the replacement, the replacement is what visit returns",
        symbolic={"kind,inst,target,action": "choice", "fresh": "choice: shared / fresh children"}, witness={"kind": 0, "inst": 0, "target": 0, "action": 0, "fresh": False},
    ),
    Cond(
        name="visit_step", fn=_visit_step, quick=120, thorough=400, per_path=30, shards_quick=14, shards_thorough=14,
        bound="one traversal step for each of the %d node kinds: up to %d parsed instances per kind (0/1/2 elements per list slot, optional slots present/absent), "
              "one direct child (any position) kept / deleted / replaced / skipped" % (len(KINDS), MAX_INST),
        symbolic={"kind": "choice: node kind", "inst": "choice: which instance", "target": "choice: which direct child", "action": "choice: keep/delete/replace/skip"},
        assumptions=["oracle: per-kind child table in source order from the grammar; only depth-1 events are compared (induction on tree height is an argument, not a query)"],
        witness={"kind": 5, "inst": 0, "target": 0, "action": 0},
    ),
    Cond(name="visit_pairs", fn=_visit_pairs, quick=150, thorough=600, per_path=60, shards_quick=16, shards_thorough=32,
         bound="as visit_step, but TWO children of the same node get an action each in one pass (delete / replace / skip x delete / replace / skip; every pair of child positions, quick: adjacent pairs and pairs with the "
               "first child): events, the rebuilt child lists (identity of replacements, order of survivors) and single-valued slots are exactly what the two local edits imply",
         symbolic={"kind": "choice: node kind", "inst": "choice: instance", "t1,t2": "choice: child positions", "a1,a2": "choice: actions"},
         witness={"kind": 0, "inst": 0, "t1": 0, "a1": 1, "t2": 1, "a2": 2}),
    Cond(name="chained", fn=_chained, quick=60, thorough=60, bound="1..3 chained recording visitors, one of which returns None / raises SkipNode on Field nodes",
         symbolic={"n,who,mode": "choice"}, witness={"n": 2, "who": 0, "mode": 0}),
    Cond(name="chained_replace", fn=_chained_replace, quick=60, thorough=60,
         bound="1..4 chained visitors of which one (every position) replaces every Field by a new node, 3 documents: earlier visitors enter the original, later ones the replacement, all leave the replacement in reverse order, the document holds the replacements",
         symbolic={"n": "choice", "who": "choice: replacing visitor", "src": "choice: document"}, witness={"n": 3, "who": 0, "src": 0}),
    Cond(name="dispatch_total", fn=_dispatch_total, quick=60, thorough=60, bound="every node kind reaches its enter_*/leave_* pair on DispatchingVisitor",
         symbolic={"kind": "choice"}, witness={"kind": 5}),
]
