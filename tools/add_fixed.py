#!/usr/bin/env python3
"""tools/add_fixed.py <id> <Cxx> <condition> '<args json>' <commit> "<what>"  - append a 'fixed' regression witness to known_findings.json (run by hand, never at check time)"""
import json, subprocess, sys
fid, prop, cond, args, commit, what = sys.argv[1:7]
d = json.load(open("/verif/known_findings.json"))
assert not any(f["id"] == fid for f in d["findings"]), "duplicate id"
subj = subprocess.run(["git", "-C", "/repo", "log", "-1", "--format=%s", commit], capture_output=True, text=True).stdout.strip()
d["findings"].append({"id": fid, "property": prop, "status": "fixed", "commit": subj, "condition": cond, "args": json.loads(args),
                      "what": "fixed: property=%s %s %s" % (prop, commit, what)})
json.dump(d, open("/verif/known_findings.json", "w"), indent=1)
print("added", fid)
