#!/usr/bin/env python3
"""tools/keep_seed.py <Cxx> <round> <status: caught|missed> "<change>" "<needs>" "<detected_by>"
files the confirmed seeded change of /tmp/seed/<Cxx> as /verif/seeded/<Cxx>-r<round>/ (patch.diff, demo.py, NOTES.md, meta.json)"""
import json, os, shutil, subprocess, sys
pid, rnd, status, change, needs, detected = sys.argv[1:7]
wt = "/tmp/seed/%s" % pid
dst = "/verif/seeded/%s-r%s" % (pid, rnd)
os.makedirs(dst, exist_ok=True)
patch = subprocess.run(["git", "-C", wt, "diff", "--", "src"], capture_output=True, text=True).stdout
assert patch.strip(), "no change applied in " + wt
open(dst + "/patch.diff", "w").write(patch)
shutil.copy(wt + "/_seed/demo.py", dst + "/demo.py")
if os.path.exists(wt + "/_seed/NOTES.md"):
    shutil.copy(wt + "/_seed/NOTES.md", dst + "/NOTES.md")
base = subprocess.run(["git", "-C", wt, "rev-parse", "--short", "HEAD"], capture_output=True, text=True).stdout.strip()
meta = {
    "property": pid, "round": int(rnd), "change": change, "needs_to_manifest": needs,
    "author": "independent sub-agent given only the property text, a scratch worktree and one-line descriptions of the earlier changes to avoid; also asked for side findings (NOTES.md)",
    "confirmed": "tools/try_seed.sh %s: unedited test suite passes with the change (1895 passed); demo.py exits 1 with the change and 0 without" % pid,
    "detected_by": detected,
    "status": ("caught by the checks as they stood" if status == "caught" else "missed by the checks as they stood after round %d; generator widened, now caught" % (int(rnd) - 1)),
    "base_commit": base,
}
json.dump(meta, open(dst + "/meta.json", "w"), indent=1)
print("kept", dst)
