#!/bin/bash
# tools/verify_seeds.sh [ids...]: every kept seeded change must (a) still apply to /repo HEAD, (b) be reported by the quick check.
cd /repo; ids=${@:-$(ls /verif/seeded)}
for id in $ids; do
  wt=/var/tmp/seedwt-$id; prop=${id%%-*}; rm -rf $wt; git worktree prune
  git worktree add -q --detach $wt HEAD || { echo "$id worktree failed"; continue; }
  if ! git -C $wt apply /verif/seeded/$id/patch.diff 2>/dev/null; then echo "$id PATCH-DOES-NOT-APPLY"; git worktree remove --force $wt; continue; fi
  (cd /verif && VF_REPO=$wt bin/check $prop > /var/tmp/seedcheck-$id.log 2>&1); rc=$?
  echo "$id check_rc=$rc $(grep -c '^VIOLATION' /var/tmp/seedcheck-$id.log) violation lines"
  git worktree remove --force $wt
done
