#!/bin/bash
# tools/verify_seeds.sh [ids...]: every kept seeded change must (a) still apply to /repo HEAD, (b) pass the unedited test suite,
# (c) be reported (exit 1) by the quick check - restricted to the conditions its meta.json names in "detected_by" (FULL=1: the whole check).
cd /repo; ids=${@:-$(ls /verif/seeded)}
for id in $ids; do
  wt=/var/tmp/seedwt-$id; prop=${id%%-*}; rm -rf $wt; git worktree prune
  git worktree add -q --detach $wt HEAD || { echo "$id worktree failed"; continue; }
  if ! git -C $wt apply /verif/seeded/$id/patch.diff 2>/dev/null; then echo "$id PATCH-DOES-NOT-APPLY"; git worktree remove --force $wt; continue; fi
  only=$(cd /verif && .venv/bin/python - $id $prop <<'PY'
import json, sys, re, importlib
sys.path.insert(0, "/verif"); sys.path.insert(0, "/repo/src")
m = json.load(open("/verif/seeded/%s/meta.json" % sys.argv[1]))
mod = importlib.import_module("harness." + sys.argv[2].lower())
names = [c.name for c in mod.CONDITIONS if re.search(r"\b%s\b" % re.escape(c.name), m.get("detected_by", ""))]
print(",".join(names))
PY
)
  args=""; [ -n "$only" ] && [ -z "$FULL" ] && args="--only $only"
  demo=$(cd $wt && PYTHONPATH=$wt/src /venv/bin/python /verif/seeded/$id/demo.py >/dev/null 2>&1; echo $?)
  (cd /verif && VF_REPO=$wt bin/check $prop $args > /var/tmp/seedcheck-$id.log 2>&1); rc=$?
  echo "$id demo_rc=$demo check_rc=$rc $(grep -c '^VIOLATION' /var/tmp/seedcheck-$id.log) violation lines [$args]"
  git worktree remove --force $wt
done
