#!/usr/bin/env python3
"""tools/seed_prompt.py <Cxx> <round>: prints the brief given to a seeding sub-agent.

The brief contains the property text, the scratch worktree to use and one-line descriptions of the
earlier seeded changes of that property (to avoid) - nothing else from /verif."""
import glob
import json
import sys

pid, rnd = sys.argv[1], sys.argv[2]
prop = None
for line in open("/verif/properties.jsonl"):
    d = json.loads(line)
    if d["id"] == pid:
        prop = d
earlier = []
for m in sorted(glob.glob("/verif/seeded/%s*/meta.json" % pid)):
    j = json.load(open(m))
    earlier.append("- %s (needed: %s)" % (j["change"], j["needs_to_manifest"]))
wt = "/tmp/seed/%s" % pid
print(
    """You are helping to evaluate a verification framework for the Python library py-gql (lirsacc/py-gql, a pure-Python GraphQL
implementation). Your job: plant ONE realistic, subtle regression in the library that breaks the semantic property quoted below,
while the library still imports and its whole existing test suite still passes.

Your private scratch copy of the repository (a git worktree) is %(wt)s - work ONLY there. Never touch /repo or /verif, never
read /verif. Python: /venv/bin/python. Run things as  `cd %(wt)s && PYTHONPATH=%(wt)s/src /venv/bin/python ...`.
Test suite: `cd %(wt)s && PYTHONPATH=%(wt)s/src /venv/bin/python -m pytest -q -p no:cacheprovider -x` (about 1895 tests, ~1 min).
No network.

THE PROPERTY (%(id)s: %(title)s)

Statement: %(statement)s

Quantifier: %(quantifier)s

Why tests cannot settle it: %(why)s

Anchors: %(anchors)s

WHAT TO PRODUCE

1. A change under %(wt)s/src (keep it small: a plausible refactoring slip, an optimisation, a cache, a 'simplification', a
   wrong early return, an off-by-one, state shared where it should not be ...) such that the property is violated for SOME inputs
   / schedules / histories, but NOT for the ones ordinary use or the existing tests exercise. It must need something specific to
   manifest: an unusual input, a particular combination of two features, a multi-step sequence of calls, a particular completion
   order, or two cooperating sites that each look fine alone. A change that breaks the simplest use of the feature is useless.
2. The whole existing test suite must still pass with your change (run it; do not edit tests).
3. A demonstration %(wt)s/_seed/demo.py: a small stand-alone program using only the public API of py_gql that exits 1 (printing
   what went wrong) when the property is violated and exits 0 when it holds. It must exit 1 with your change and 0 on the
   unmodified code (verify both: `git stash` / `git stash pop`, or `git diff > p; git apply -R p; ...; git apply p`).
4. %(wt)s/_seed/NOTES.md: (a) what you changed and which clause of the property it breaks, (b) exactly what is needed for it to
   manifest, (c) the commands you ran and their results, (d) SIDE FINDINGS: anything in the UNMODIFIED library that you noticed
   already violates this property (or looks wrong) while you were reading the code - with a concrete reproducer if you have one.
   Side findings are as valuable as the seeded change; spend some time reading the code anchored above with a critical eye.
5. Leave the change APPLIED (uncommitted) in the worktree when you finish. Do not commit.

Earlier seeded changes for this property - yours must be DIFFERENT in kind: another clause of the property, another function,
another kind of trigger. Do not produce a variation of these:
%(earlier)s

Be creative about *which part* of the property you attack: re-read the statement clause by clause and the anchors file by file, and
prefer a clause / function / input dimension that the earlier changes left alone. Prefer changes whose trigger is a COMBINATION of
features (each fine alone). Finish with a short report: the change in one sentence, what it needs to manifest, test-suite result,
demo results with and without, and your side findings."""
    % dict(
        wt=wt,
        id=pid,
        title=prop["title"],
        statement=prop["statement"],
        quantifier=prop["quantifier"],
        why=prop["why_tests_cant"],
        anchors=json.dumps(prop["anchors"]),
        earlier="\n".join(earlier) or "- (none)",
    )
)
