#!/bin/bash
# tools/try_seed.sh <Cxx> [extra bin/check args]: confirm a sub-agent's seeded change and run the check against it.
# Works on the scratch worktree /tmp/seed/<Cxx> through VF_REPO (so /repo stays untouched while other runs use it).
id=$1; shift
wt=/tmp/seed/$id
cd $wt || exit 2
git diff -- src > _seed/patch.confirmed.diff
[ -s _seed/patch.confirmed.diff ] || { echo "no change applied in $wt"; exit 2; }
# bring the worktree to the current /repo HEAD (genuine fixes may have landed since the sub-agent worked), keeping the seeded change applied
head=$(git -C /repo rev-parse HEAD)
if [ "$(git rev-parse HEAD)" != "$head" ]; then
  git checkout -q -- src && git checkout -q --detach $head && git apply _seed/patch.confirmed.diff || { echo "seed does not apply to /repo HEAD $head"; exit 2; }
  echo "--- worktree moved to /repo HEAD $head"
fi
echo "--- tests with the change:"; PYTHONPATH=$wt/src /venv/bin/python -m pytest -q -p no:cacheprovider 2>&1 | tail -1 | sed 's/\x1b\[[0-9;]*m//g'
echo "--- demo with the change (expect exit 1):"; PYTHONPATH=$wt/src /venv/bin/python _seed/demo.py > /var/tmp/demo_with.out 2>&1; echo "rc=$?"; tail -2 /var/tmp/demo_with.out | cut -c1-200
git apply -R _seed/patch.confirmed.diff
echo "--- demo without the change (expect exit 0):"; PYTHONPATH=$wt/src /venv/bin/python _seed/demo.py > /var/tmp/demo_without.out 2>&1; echo "rc=$?"
git apply _seed/patch.confirmed.diff
echo "--- check against the changed tree:"
cd ${VERIF_DIR:-/verif} && VF_REPO=$wt bin/check $id "$@" 2>&1 | grep -v "^KNOWN-FINDING" | tail -6 | cut -c1-260; echo "check rc=${PIPESTATUS[0]}"
